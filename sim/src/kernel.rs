//! The simulated Linux socket layer erbium runs on.  Only the erbium host has
//! sockets here; every other party (DHCP clients, DNS clients, upstream
//! servers, HTTP clients, routers' neighbours) is an actor that injects and
//! receives packets through the functions at the bottom of this file.

use crate::addr::{self, Addr, UnixName};
use crate::rng::Rng;
use erbium_net::sim::{Cmsg, Errno, Interest, RecvOut, SimKernel};
use std::collections::{BTreeMap, HashMap, VecDeque};
use std::net::{IpAddr, Ipv4Addr, Ipv6Addr, SocketAddr, SocketAddrV4, SocketAddrV6};
use std::sync::{Arc, Mutex};
use std::task::{Context, Poll, Waker};
use tokio::time::{Duration, Instant};

pub type Fd = i32;
const RXQ_MAX: usize = 512;

#[derive(Clone, Debug)]
pub struct Iface {
    pub ifidx: u32,
    pub name: String,
    pub mac: [u8; 6],
    pub mtu: u32,
    pub v4: Vec<(Ipv4Addr, u8)>,
    pub v6: Vec<(Ipv6Addr, u8)>,
    pub multicast: bool,
}

#[derive(Clone, Debug)]
pub struct Knobs {
    pub yield_p: f64,
    pub spurious_p: f64,
    pub eintr_p: f64,
    pub lat_min_us: u64,
    pub lat_max_us: u64,
    pub out_loss_p: f64,
    pub out_dup_p: f64,
    pub out_delay_p: f64,
    pub out_delay_max_ms: u64,
    pub sndbuf: usize,
    pub max_seg: usize,
    pub faults_until_ns: u64,
    /// size of the ephemeral port range (0: the Linux default 32768..60999); a small range
    /// makes a new socket reuse the port of one that was just closed
    pub eph_ports: u16,
    /// probability that a UDP sendmsg of the system under test fails (ENOBUFS, EPERM, ...)
    pub send_err_p: f64,
}

impl Default for Knobs {
    fn default() -> Self {
        Knobs {
            yield_p: 0.0,
            spurious_p: 0.0,
            eintr_p: 0.0,
            lat_min_us: 100,
            lat_max_us: 100,
            out_loss_p: 0.0,
            out_dup_p: 0.0,
            out_delay_p: 0.0,
            out_delay_max_ms: 0,
            sndbuf: 1 << 20,
            max_seg: 0,
            faults_until_ns: u64::MAX,
            eph_ports: 0,
            send_err_p: 0.0,
        }
    }
}

#[derive(Clone, Debug)]
pub enum OutKind {
    Udp { src: SocketAddr, dst: SocketAddr, data: Vec<u8> },
    Frame { ifidx: u32, data: Vec<u8> },
    Icmp6 { ifidx: u32, src: Ipv6Addr, dst: Ipv6Addr, data: Vec<u8> },
}

/// One send attempt by erbium as the kernel saw it (successful or refused).
#[derive(Clone, Debug)]
pub struct OutEv {
    pub seq: u64,
    pub at_ns: u64,
    pub fd: Fd,
    pub kind: OutKind,
    pub errno: Option<Errno>,
    /// the error was injected by the simulator (a failing system call), not earned
    pub injected: bool,
}

#[derive(Debug)]
pub struct UdpIn {
    pub at_ns: u64,
    pub src: SocketAddr,
    pub dst: SocketAddr,
    pub data: Vec<u8>,
    /// simulation metadata: which socket of the system under test sent this
    pub from_serial: u64,
}

#[derive(Clone, Copy, Debug, PartialEq, Eq)]
pub enum ListenMode {
    Accept,
    Refuse,
    Blackhole,
}

#[derive(Clone, Copy, Debug, PartialEq, Eq)]
enum Kind {
    Udp,
    Packet,
    Raw6,
    Stream,
}

struct Dgram {
    data: Vec<u8>,
    src: Vec<u8>,
    cmsgs: Vec<Cmsg>,
}

struct Sock {
    serial: u64,
    domain: i32,
    proto: i32,
    kind: Kind,
    local: Option<Addr>,
    peer: Option<Addr>,
    pktinfo4: bool,
    pktinfo6: bool,
    joined: Vec<Ipv6Addr>,
    rxq: VecDeque<Dgram>,
    rd_ready: bool,
    wr_ready: bool,
    rd_waker: Option<Waker>,
    wr_waker: Option<Waker>,
    err: Option<Errno>,
    listening: bool,
    acceptq: VecDeque<(usize, Addr, Addr)>, /* conn id, local, peer */
    conn: Option<(usize, usize)>,            /* conn id, side */
    connecting: bool,
    dead: bool,
}

impl Sock {
    fn wake_rd(&mut self) {
        self.rd_ready = true;
        if let Some(w) = self.rd_waker.take() {
            w.wake()
        }
    }
    fn wake_wr(&mut self) {
        self.wr_ready = true;
        if let Some(w) = self.wr_waker.take() {
            w.wake()
        }
    }
}

enum Seg {
    Data(Vec<u8>),
    Fin,
    Rst,
}

struct Pipe {
    buf: VecDeque<u8>,
    flight: VecDeque<(Instant, Seg)>,
    inflight: usize,
    last_at: Instant,
    fin_sent: bool,
    fin_rcvd: bool,
    rst: bool,
}

struct Conn {
    /// pipes[s] carries bytes written by side s towards side 1-s
    pipes: [Pipe; 2],
    fd: [Option<Fd>; 2],
    waker: [Option<Waker>; 2],
    closed: [bool; 2],
    pub bytes: [u64; 2],
}

struct ActorListener {
    mode: ListenMode,
    tx: tokio::sync::mpsc::UnboundedSender<ActorStream>,
}

#[derive(Default, Clone, Debug)]
pub struct EvLog {
    pub hash: u64,
    pub n: u64,
    pub trace: Option<Vec<String>>,
}

impl EvLog {
    pub fn ev(&mut self, at_ns: u64, kind: &str, a: u64, b: u64, data: &[u8]) {
        let mut h = self.hash ^ crate::rng::hash_str(kind);
        h = crate::rng::mix64(h ^ at_ns);
        h = crate::rng::mix64(h ^ a);
        h = crate::rng::mix64(h ^ b.rotate_left(17));
        self.hash = crate::rng::hash_bytes(h, data);
        self.n += 1;
        if let Some(t) = &mut self.trace {
            let d: String = data.iter().take(24).map(|b| format!("{:02x}", b)).collect();
            t.push(format!("{:>12}ns {} a={} b={} len={} {}", at_ns, kind, a, b, data.len(), d));
        }
    }
}

pub struct KInner {
    pub ifaces: Vec<Iface>,
    pub default_if: Option<u32>,
    pub knobs: Knobs,
    next_serial: u64,
    socks: BTreeMap<Fd, Sock>,
    conns: Vec<Conn>,
    rng: Rng,
    pub log: EvLog,
    pub out: Vec<OutEv>,
    out_seq: u64,
    next_out_injected: bool,
    udp_eps: HashMap<(IpAddr, u16), tokio::sync::mpsc::UnboundedSender<UdpIn>>,
    tcp_listeners: HashMap<SocketAddr, ActorListener>,
    pub stats: BTreeMap<String, u64>,
    t0: Instant,
}

pub struct Kernel {
    inner: Mutex<KInner>,
}

/// The object installed in `erbium_net::sim`.
pub struct KHandle(pub Arc<Kernel>);

fn is_broadcast4(k: &KInner, ip: Ipv4Addr) -> bool {
    if ip == Ipv4Addr::BROADCAST {
        return true;
    }
    k.ifaces.iter().any(|i| {
        i.v4.iter().any(|(a, l)| {
            let mask = if *l == 0 { 0 } else { !0u32 << (32 - *l as u32) };
            *l < 31 && u32::from(ip) == (u32::from(*a) | !mask)
        })
    })
}

impl KInner {
    fn now_ns(&self) -> u64 {
        Instant::now().saturating_duration_since(self.t0).as_nanos() as u64
    }
    pub fn stat(&mut self, name: &str) {
        *self.stats.entry(name.to_string()).or_insert(0) += 1;
    }
    fn faults_on(&self) -> bool {
        self.now_ns() < self.knobs.faults_until_ns
    }
    fn latency(&mut self) -> Duration {
        let us = self.rng.range(self.knobs.lat_min_us, self.knobs.lat_max_us.max(self.knobs.lat_min_us));
        Duration::from_micros(us)
    }
    fn is_local(&self, ip: IpAddr) -> bool {
        match addr::unmap(ip) {
            IpAddr::V4(v4) => {
                v4.is_loopback() || self.ifaces.iter().any(|i| i.v4.iter().any(|(a, _)| *a == v4))
            }
            IpAddr::V6(v6) => {
                v6.is_loopback() || self.ifaces.iter().any(|i| i.v6.iter().any(|(a, _)| *a == v6))
            }
        }
    }
    fn iface(&self, ifidx: u32) -> Option<&Iface> {
        self.ifaces.iter().find(|i| i.ifidx == ifidx)
    }
    /// Outgoing interface and source address the routing table picks for `dst`.
    fn route(&self, dst: IpAddr) -> Option<(u32, IpAddr)> {
        match addr::unmap(dst) {
            IpAddr::V4(d) => {
                if d.is_loopback() {
                    return Some((1, IpAddr::V4(Ipv4Addr::LOCALHOST)));
                }
                for i in &self.ifaces {
                    for (a, l) in &i.v4 {
                        let mask = if *l == 0 { 0 } else { !0u32 << (32 - *l as u32) };
                        if u32::from(d) & mask == u32::from(*a) & mask {
                            return Some((i.ifidx, IpAddr::V4(*a)));
                        }
                    }
                }
                let i = self.iface(self.default_if?)?;
                i.v4.first().map(|(a, _)| (i.ifidx, IpAddr::V4(*a)))
            }
            IpAddr::V6(d) => {
                if d.is_loopback() {
                    return Some((1, IpAddr::V6(Ipv6Addr::LOCALHOST)));
                }
                for i in &self.ifaces {
                    for (a, l) in &i.v6 {
                        let mask = if *l == 0 { 0 } else { !0u128 << (128 - *l as u32) };
                        if u128::from(d) & mask == u128::from(*a) & mask && !is_ll6(*a) {
                            return Some((i.ifidx, IpAddr::V6(*a)));
                        }
                    }
                }
                let i = self.iface(self.default_if?)?;
                i.v6.iter().find(|(a, _)| !is_ll6(*a)).map(|(a, _)| (i.ifidx, IpAddr::V6(*a)))
            }
        }
    }
    fn alloc_port(&mut self, kind: Kind) -> u16 {
        let mut tries = 0u32;
        loop {
            tries += 1;
            let small = self.knobs.eph_ports > 0 && tries <= 64;
            let p = if small { self.rng.range(32768, 32768 + self.knobs.eph_ports as u64 - 1) as u16 } else { self.rng.range(32768, 60999) as u16 };
            let used = self.socks.values().any(|s| {
                !s.dead && s.kind == kind && matches!(&s.local, Some(Addr::Inet(a)) if a.port() == p)
            });
            if !used {
                return p;
            }
        }
    }
    fn record_out(&mut self, fd: Fd, kind: OutKind, errno: Option<Errno>) -> u64 {
        self.out_seq += 1;
        let at_ns = self.now_ns();
        let (tag, a, data): (&str, u64, &[u8]) = match &kind {
            OutKind::Udp { dst, data, .. } => ("out.udp", dst.port() as u64, data),
            OutKind::Frame { ifidx, data } => ("out.frame", *ifidx as u64, data),
            OutKind::Icmp6 { ifidx, data, .. } => ("out.icmp6", *ifidx as u64, data),
        };
        self.log.ev(at_ns, tag, a, errno.unwrap_or(0) as u64, data);
        let injected = std::mem::take(&mut self.next_out_injected);
        self.out.push(OutEv { seq: self.out_seq, at_ns, fd, kind, errno, injected });
        self.out_seq
    }
}

fn is_ll6(a: Ipv6Addr) -> bool {
    a.segments()[0] & 0xffc0 == 0xfe80
}

/// How well a socket bound to `bound` matches a packet addressed to `dst`
/// (0 = not at all).  An AF_INET6 wildcard socket also takes IPv4 (dual stack).
fn match_score(bound: &SocketAddr, dst: &SocketAddr) -> u8 {
    if bound.port() != dst.port() {
        return 0;
    }
    match (bound.ip(), dst.ip()) {
        (IpAddr::V4(b), IpAddr::V4(d)) => {
            if b == d {
                2
            } else if b.is_unspecified() {
                1
            } else {
                0
            }
        }
        (IpAddr::V6(b), IpAddr::V6(d)) => {
            if b == d {
                2
            } else if b.is_unspecified() {
                1
            } else {
                0
            }
        }
        (IpAddr::V6(b), IpAddr::V4(d)) => {
            if b.is_unspecified() || b.to_ipv4_mapped() == Some(d) {
                1
            } else {
                0
            }
        }
        _ => 0,
    }
}

fn present(domain: i32, a: SocketAddr) -> SocketAddr {
    match (domain, a) {
        (libc::AF_INET6, SocketAddr::V4(v4)) => {
            SocketAddr::V6(SocketAddrV6::new(addr::map_v4(*v4.ip()), v4.port(), 0, 0))
        }
        _ => a,
    }
}

impl Kernel {
    pub fn new(seed: u64, ifaces: Vec<Iface>, default_if: Option<u32>, knobs: Knobs, trace: bool) -> Arc<Kernel> {
        Arc::new(Kernel {
            inner: Mutex::new(KInner {
                ifaces,
                default_if,
                knobs,
                next_serial: 0,
                socks: BTreeMap::new(),
                conns: vec![],
                rng: Rng::new(seed, "kernel"),
                log: EvLog { hash: 0, n: 0, trace: if trace { Some(vec![]) } else { None } },
                out: vec![],
                out_seq: 0,
                next_out_injected: false,
                udp_eps: HashMap::new(),
                tcp_listeners: HashMap::new(),
                stats: BTreeMap::new(),
                t0: Instant::now(),
            }),
        })
    }

    pub fn with<R>(&self, f: impl FnOnce(&mut KInner) -> R) -> R {
        let mut g = self.inner.lock().unwrap_or_else(|e| e.into_inner());
        f(&mut g)
    }

    pub fn now_ns(&self) -> u64 {
        self.with(|k| k.now_ns())
    }

    fn later(self: &Arc<Self>, at: Instant, f: impl FnOnce(&Arc<Kernel>) + Send + 'static) {
        let k = self.clone();
        tokio::spawn(async move {
            tokio::time::sleep_until(at).await;
            f(&k);
        });
    }

    /// The erbium process died (crash or restart): every descriptor it owned
    /// is gone.  Tasks of the dead incarnation that are parked on them never
    /// wake up again.
    pub fn kill_process(self: &Arc<Self>) {
        let conns = self.with(|k| {
            let fds: Vec<Fd> = k.socks.keys().copied().collect();
            fds.into_iter().filter_map(|fd| close_locked(k, fd, true)).collect::<Vec<_>>()
        });
        for (c, side) in conns {
            self.end_close(c, side);
        }
    }

    /// unread frames on AF_PACKET sockets that someone is supposed to be reading
    pub fn rx_backlog(&self) -> usize {
        self.with(|k| k.socks.values().filter(|s| !s.dead && s.kind == Kind::Packet && s.proto as u16 != 0x0003).map(|s| s.rxq.len()).sum())
    }

    pub fn take_out(&self) -> Vec<OutEv> {
        self.with(|k| std::mem::take(&mut k.out))
    }

    // ---- actor side: datagrams -------------------------------------------------

    pub fn actor_udp_bind(&self, ip: IpAddr, port: u16) -> tokio::sync::mpsc::UnboundedReceiver<UdpIn> {
        let (tx, rx) = tokio::sync::mpsc::unbounded_channel();
        self.with(|k| k.udp_eps.insert((ip, port), tx));
        rx
    }

    /// A UDP datagram arrives at the erbium host from the network.
    /// Returns false if no socket takes it (the host would answer with ICMP).
    pub fn inject_udp(&self, dst: SocketAddr, src: SocketAddr, ifidx: u32, data: &[u8]) -> bool {
        self.inject_udp_serial(dst, src, ifidx, data).is_some()
    }

    /// Like `inject_udp`; tells which socket (by serial) the datagram was queued on.
    pub fn inject_udp_serial(&self, dst: SocketAddr, src: SocketAddr, ifidx: u32, data: &[u8]) -> Option<u64> {
        let got = std::cell::Cell::new(0u64);
        let ok = self.inject_udp_inner(dst, src, ifidx, data, &got);
        if ok { Some(got.get()) } else { None }
    }

    fn inject_udp_inner(&self, dst: SocketAddr, src: SocketAddr, ifidx: u32, data: &[u8], got: &std::cell::Cell<u64>) -> bool {
        self.with(|k| {
            let now = k.now_ns();
            k.log.ev(now, "in.udp", dst.port() as u64, src.port() as u64, data);
            let dst_ok = match dst.ip() {
                IpAddr::V4(d) => k.is_local(dst.ip()) || is_broadcast4(k, d),
                IpAddr::V6(_) => k.is_local(dst.ip()),
            };
            if !dst_ok {
                k.stat("in.udp.not_local");
                return false;
            }
            let mut best: Option<(u8, Fd)> = None;
            for (fd, s) in k.socks.iter() {
                if s.dead || s.kind != Kind::Udp {
                    continue;
                }
                let Some(Addr::Inet(bound)) = &s.local else { continue };
                let mut score = match_score(bound, &dst);
                if score == 0 {
                    continue;
                }
                if let Some(Addr::Inet(peer)) = &s.peer {
                    let p = SocketAddr::new(addr::unmap(peer.ip()), peer.port());
                    if p != src {
                        continue;
                    }
                    score += 4;
                }
                if best.map(|b| score > b.0).unwrap_or(true) {
                    best = Some((score, *fd));
                }
            }
            let Some((_, fd)) = best else {
                k.stat("in.udp.no_socket");
                return false;
            };
            let spec4 = match k.iface(ifidx).and_then(|i| i.v4.first()) {
                Some((a, _)) => *a,
                None => Ipv4Addr::UNSPECIFIED,
            };
            let s = k.socks.get_mut(&fd).unwrap();
            got.set(s.serial);
            if s.rxq.len() >= RXQ_MAX {
                k.stat("in.udp.rxq_full");
                return true;
            }
            let mut cmsgs = vec![];
            let src_present = present(s.domain, src);
            match (s.domain, dst.ip()) {
                (libc::AF_INET, IpAddr::V4(d)) => {
                    if s.pktinfo4 {
                        cmsgs.push(Cmsg {
                            level: libc::IPPROTO_IP,
                            ty: libc::IP_PKTINFO,
                            data: addr::encode_pktinfo4(ifidx as i32, spec4, d),
                        });
                    }
                }
                (libc::AF_INET6, d) => {
                    if s.pktinfo6 {
                        let d6 = match d {
                            IpAddr::V4(v4) => addr::map_v4(v4),
                            IpAddr::V6(v6) => v6,
                        };
                        cmsgs.push(Cmsg {
                            level: libc::IPPROTO_IPV6,
                            ty: libc::IPV6_PKTINFO,
                            data: addr::encode_pktinfo6(d6, ifidx),
                        });
                    }
                    if s.pktinfo4 && d.is_ipv4() {
                        if let IpAddr::V4(v4) = d {
                            cmsgs.push(Cmsg {
                                level: libc::IPPROTO_IP,
                                ty: libc::IP_PKTINFO,
                                data: addr::encode_pktinfo4(ifidx as i32, spec4, v4),
                            });
                        }
                    }
                }
                _ => (),
            }
            s.rxq.push_back(Dgram { data: data.to_vec(), src: addr::encode(&Addr::Inet(src_present)), cmsgs });
            s.wake_rd();
            true
        })
    }

    /// ICMP port/host unreachable for a datagram erbium sent from (src) to (dst).
    pub fn inject_icmp_unreachable(&self, erbium_local: SocketAddr, remote: SocketAddr) {
        self.with(|k| {
            let now = k.now_ns();
            k.log.ev(now, "in.icmp_unreach", erbium_local.port() as u64, remote.port() as u64, &[]);
            for s in k.socks.values_mut() {
                if s.dead || s.kind != Kind::Udp {
                    continue;
                }
                if let (Some(Addr::Inet(l)), Some(Addr::Inet(p))) = (&s.local, &s.peer) {
                    if l.port() == erbium_local.port()
                        && SocketAddr::new(addr::unmap(p.ip()), p.port()) == remote
                    {
                        s.err = Some(libc::ECONNREFUSED);
                        s.wake_rd();
                    }
                }
            }
        })
    }

    /// An Ethernet frame arrives on an interface of the erbium host.
    pub fn inject_frame(&self, ifidx: u32, frame: &[u8]) {
        assert!(frame.len() >= 14, "the kernel never delivers runt frames");
        self.with(|k| {
            let now = k.now_ns();
            k.log.ev(now, "in.frame", ifidx as u64, 0, frame);
            let ethertype = u16::from_be_bytes([frame[12], frame[13]]);
            let mut mac = [0u8; 6];
            mac.copy_from_slice(&frame[6..12]);
            for s in k.socks.values_mut() {
                if s.dead || s.kind != Kind::Packet {
                    continue;
                }
                let want = s.proto as u16;
                if want != 0x0003 && want != ethertype {
                    continue;
                }
                if s.rxq.len() >= 64 {
                    continue;
                }
                s.rxq.push_back(Dgram {
                    data: frame.to_vec(),
                    src: addr::encode(&Addr::Ll { ifindex: ifidx as i32, proto: ethertype, mac }),
                    cmsgs: vec![],
                });
                s.wake_rd();
            }
        })
    }

    /// An ICMPv6 message arrives (already checksum-verified by the kernel).
    pub fn inject_icmp6(&self, ifidx: u32, src: Ipv6Addr, dst: Ipv6Addr, data: &[u8]) {
        self.with(|k| {
            let now = k.now_ns();
            k.log.ev(now, "in.icmp6", ifidx as u64, 0, data);
            let local = k.is_local(IpAddr::V6(dst));
            for s in k.socks.values_mut() {
                if s.dead || s.kind != Kind::Raw6 {
                    continue;
                }
                if !(local || (dst.is_multicast() && s.joined.contains(&dst))) {
                    continue;
                }
                if s.rxq.len() >= RXQ_MAX {
                    continue;
                }
                let mut cmsgs = vec![];
                if s.pktinfo6 {
                    cmsgs.push(Cmsg {
                        level: libc::IPPROTO_IPV6,
                        ty: libc::IPV6_PKTINFO,
                        data: addr::encode_pktinfo6(dst, ifidx),
                    });
                }
                let scope = if is_ll6(src) { ifidx } else { 0 };
                s.rxq.push_back(Dgram {
                    data: data.to_vec(),
                    src: addr::encode_v6(&SocketAddrV6::new(src, 0, 0, scope)),
                    cmsgs,
                });
                s.wake_rd();
            }
        })
    }

    // ---- actor side: streams ---------------------------------------------------

    pub fn actor_tcp_listen(&self, at: SocketAddr, mode: ListenMode) -> tokio::sync::mpsc::UnboundedReceiver<ActorStream> {
        let (tx, rx) = tokio::sync::mpsc::unbounded_channel();
        self.with(|k| k.tcp_listeners.insert(at, ActorListener { mode, tx }));
        rx
    }

    pub fn set_listen_mode(&self, at: SocketAddr, mode: ListenMode) {
        self.with(|k| {
            if let Some(l) = k.tcp_listeners.get_mut(&at) {
                l.mode = mode
            }
        })
    }

    /// An actor opens a stream to one of erbium's listeners.  The three-way
    /// handshake is completed by the kernel, as on Linux, whether or not
    /// erbium has called accept() yet.
    pub fn actor_connect(self: &Arc<Self>, from: Addr, to: Addr) -> Result<ActorStream, Errno> {
        self.with(|k| {
            let now = k.now_ns();
            k.log.ev(now, "in.connect", 0, 0, &addr::encode(&to));
            let mut best: Option<(u8, Fd)> = None;
            for (fd, s) in k.socks.iter() {
                if s.dead || s.kind != Kind::Stream || !s.listening {
                    continue;
                }
                let score = match (&s.local, &to) {
                    (Some(Addr::Inet(b)), Addr::Inet(d)) => match_score(b, d),
                    (Some(Addr::Unix(b)), Addr::Unix(d)) => (b == d) as u8,
                    _ => 0,
                };
                if score > 0 && best.map(|b| score > b.0).unwrap_or(true) {
                    best = Some((score, *fd));
                }
            }
            let Some((_, lfd)) = best else {
                return Err(libc::ECONNREFUSED);
            };
            let id = new_conn(k, [None, None]);
            let dom = k.socks[&lfd].domain;
            let (local, peer) = match (&to, &from) {
                (Addr::Inet(t), Addr::Inet(f)) => (Addr::Inet(present(dom, *t)), Addr::Inet(present(dom, *f))),
                _ => (to.clone(), from.clone()),
            };
            let s = k.socks.get_mut(&lfd).unwrap();
            s.acceptq.push_back((id, local, peer));
            s.wake_rd();
            Ok(ActorStream { k: self.clone(), conn: id, side: 0 })
        })
    }

    fn pipe_pump(self: &Arc<Self>, conn: usize, from_side: usize) {
        self.with(|k| {
            let now = Instant::now();
            let c = &mut k.conns[conn];
            let p = &mut c.pipes[from_side];
            let mut any = false;
            while let Some((at, _)) = p.flight.front() {
                if *at > now {
                    break;
                }
                any = true;
                match p.flight.pop_front().unwrap().1 {
                    Seg::Data(d) => {
                        p.inflight -= d.len();
                        p.buf.extend(d);
                    }
                    Seg::Fin => p.fin_rcvd = true,
                    Seg::Rst => {
                        /* what was delivered before the reset stays readable (Linux copies
                         * queued data before it reports ECONNRESET) */
                        p.rst = true;
                    }
                }
            }
            if any {
                let to = 1 - from_side;
                let rst = p.rst;
                if rst {
                    /* a reset kills both directions */
                    c.pipes[to].rst = true;
                }
                notify_end(k, conn, to, true, rst);
            }
        })
    }

    fn end_write(self: &Arc<Self>, conn: usize, side: usize, data: &[u8]) -> Result<usize, Errno> {
        let (n, at) = self.with(|k| {
            let sndbuf = k.knobs.sndbuf;
            let max_seg = k.knobs.max_seg;
            let lat = k.latency();
            let c = &mut k.conns[conn];
            if c.closed[side] {
                return Err(libc::EBADF);
            }
            let p = &mut c.pipes[side];
            if p.rst || c.closed[1 - side] && p.fin_sent {
                return Err(libc::EPIPE);
            }
            if p.rst {
                return Err(libc::ECONNRESET);
            }
            if p.fin_sent {
                return Err(libc::EPIPE);
            }
            if c.closed[1 - side] {
                /* peer is gone: data is answered with a reset */
                p.rst = true;
                return Err(libc::EPIPE);
            }
            let used = p.buf.len() + p.inflight;
            if used >= sndbuf {
                return Err(libc::EAGAIN);
            }
            let mut n = data.len().min(sndbuf - used);
            if max_seg > 0 {
                n = n.min(max_seg);
            }
            if n == 0 {
                return Ok((0, None));
            }
            let at = std::cmp::max(p.last_at, Instant::now() + lat);
            p.last_at = at;
            p.inflight += n;
            p.flight.push_back((at, Seg::Data(data[..n].to_vec())));
            c.bytes[side] += n as u64;
            Ok((n, Some(at)))
        })?;
        if let Some(at) = at {
            self.later(at, move |k| k.pipe_pump(conn, side));
        }
        Ok(n)
    }

    fn end_read(&self, conn: usize, side: usize, buf: &mut [u8]) -> Result<usize, Errno> {
        self.with(|k| {
            let c = &mut k.conns[conn];
            let p = &mut c.pipes[1 - side];
            if p.buf.is_empty() {
                if p.rst {
                    return Err(libc::ECONNRESET);
                }
                return if p.fin_rcvd { Ok(0) } else { Err(libc::EAGAIN) };
            }
            let n = buf.len().min(p.buf.len());
            for b in buf.iter_mut().take(n) {
                *b = p.buf.pop_front().unwrap();
            }
            /* space freed: the writer may continue */
            notify_end(k, conn, 1 - side, false, true);
            Ok(n)
        })
    }

    fn end_shutdown(self: &Arc<Self>, conn: usize, side: usize, rst: bool) {
        let at = self.with(|k| {
            let lat = k.latency();
            let c = &mut k.conns[conn];
            let p = &mut c.pipes[side];
            if p.fin_sent || p.rst {
                return None;
            }
            p.fin_sent = true;
            let at = std::cmp::max(p.last_at, Instant::now() + lat);
            p.last_at = at;
            p.flight.push_back((at, if rst { Seg::Rst } else { Seg::Fin }));
            Some(at)
        });
        if let Some(at) = at {
            self.later(at, move |k| k.pipe_pump(conn, side));
        }
    }

    fn end_close(self: &Arc<Self>, conn: usize, side: usize) {
        let unread = self.with(|k| {
            let c = &mut k.conns[conn];
            if c.closed[side] {
                return None;
            }
            c.closed[side] = true;
            c.fd[side] = None;
            c.waker[side] = None;
            Some(!c.pipes[1 - side].buf.is_empty())
        });
        /* closing with unread data sends RST instead of FIN, as Linux does */
        if let Some(unread) = unread {
            self.end_shutdown(conn, side, unread);
        }
    }
}

/// Descriptor numbers are real (an open /dev/null), so that erbium's `OwnedFd`s
/// close something that exists; the number is only ever used as a key here.
fn alloc_fd(k: &mut KInner) -> Result<(Fd, u64, Option<(usize, usize)>), Errno> {
    let fd = unsafe { libc::open(c"/dev/null".as_ptr(), libc::O_RDONLY | libc::O_CLOEXEC) };
    if fd < 0 {
        return Err(libc::EMFILE);
    }
    /* a stale entry means erbium closed that number behind our back */
    let stale = close_locked(k, fd, false);
    k.socks.remove(&fd);
    k.next_serial += 1;
    Ok((fd, k.next_serial, stale))
}

fn new_conn(k: &mut KInner, fd: [Option<Fd>; 2]) -> usize {
    let now = Instant::now();
    let mk = || Pipe {
        buf: VecDeque::new(),
        flight: VecDeque::new(),
        inflight: 0,
        last_at: now,
        fin_sent: false,
        fin_rcvd: false,
        rst: false,
    };
    k.conns.push(Conn { pipes: [mk(), mk()], fd, waker: [None, None], closed: [false, false], bytes: [0, 0] });
    k.conns.len() - 1
}

fn notify_end(k: &mut KInner, conn: usize, side: usize, readable: bool, writable: bool) {
    let c = &mut k.conns[conn];
    if let Some(fd) = c.fd[side] {
        if let Some(s) = k.socks.get_mut(&fd) {
            if readable {
                s.wake_rd();
            }
            if writable {
                s.wake_wr();
            }
        }
    } else if let Some(w) = c.waker[side].take() {
        w.wake();
    }
}

fn close_locked(k: &mut KInner, fd: Fd, process_died: bool) -> Option<(usize, usize)> {
    let s = k.socks.get_mut(&fd)?;
    if s.dead {
        return None;
    }
    s.dead = true;
    s.rxq.clear();
    s.acceptq.clear();
    if !process_died {
        /* a plain close(): nobody can be waiting on it any more */
        s.rd_waker = None;
        s.wr_waker = None;
    }
    s.conn
}

/// The actor's end of a TCP or unix stream.
pub struct ActorStream {
    k: Arc<Kernel>,
    conn: usize,
    side: usize,
}

impl std::fmt::Debug for ActorStream {
    fn fmt(&self, f: &mut std::fmt::Formatter<'_>) -> std::fmt::Result {
        write!(f, "ActorStream({})", self.conn)
    }
}

impl ActorStream {
    pub fn id(&self) -> usize {
        self.conn
    }
    /// Read some bytes; Ok(0) is end of stream.
    pub async fn read(&mut self, buf: &mut [u8]) -> Result<usize, Errno> {
        std::future::poll_fn(|cx| match self.k.end_read(self.conn, self.side, buf) {
            Err(libc::EAGAIN) => {
                self.k.with(|k| k.conns[self.conn].waker[self.side] = Some(cx.waker().clone()));
                /* re-check: data may have arrived in between (single thread: it cannot) */
                Poll::Pending
            }
            r => Poll::Ready(r),
        })
        .await
    }
    pub async fn read_exact(&mut self, buf: &mut [u8]) -> Result<(), Errno> {
        let mut off = 0;
        while off < buf.len() {
            match self.read(&mut buf[off..]).await? {
                0 => return Err(libc::ECONNABORTED),
                n => off += n,
            }
        }
        Ok(())
    }
    /// Read until end of stream or error.
    pub async fn read_to_end(&mut self, out: &mut Vec<u8>) -> Result<(), Errno> {
        let mut buf = [0u8; 4096];
        loop {
            match self.read(&mut buf).await? {
                0 => return Ok(()),
                n => out.extend_from_slice(&buf[..n]),
            }
        }
    }
    /// Write one segment (all of `data` unless the peer's window is full).
    pub async fn write_all(&mut self, data: &[u8]) -> Result<(), Errno> {
        let mut off = 0;
        while off < data.len() {
            let r = std::future::poll_fn(|cx| match self.k.end_write(self.conn, self.side, &data[off..]) {
                Err(libc::EAGAIN) => {
                    self.k.with(|k| k.conns[self.conn].waker[self.side] = Some(cx.waker().clone()));
                    Poll::Pending
                }
                r => Poll::Ready(r),
            })
            .await?;
            off += r;
        }
        Ok(())
    }
    pub fn shutdown_write(&mut self) {
        self.k.end_shutdown(self.conn, self.side, false);
    }
    pub fn reset(&mut self) {
        self.k.end_shutdown(self.conn, self.side, true);
    }
    pub fn bytes_received(&self) -> u64 {
        self.k.with(|k| k.conns[self.conn].bytes[1 - self.side])
    }
}

impl Drop for ActorStream {
    fn drop(&mut self) {
        self.k.end_close(self.conn, self.side);
    }
}

// ---- the system call surface -------------------------------------------------

impl KHandle {
    fn k(&self) -> &Arc<Kernel> {
        &self.0
    }
}

fn ser(k: &KInner, fd: Fd) -> u64 {
    k.socks.get(&fd).map(|s| s.serial).unwrap_or(0)
}

fn sock_mut(k: &mut KInner, fd: Fd) -> Result<&mut Sock, Errno> {
    match k.socks.get_mut(&fd) {
        Some(s) if !s.dead => Ok(s),
        _ => Err(libc::EBADF),
    }
}

impl SimKernel for KHandle {
    fn socket(&self, domain: i32, ty: i32, protocol: i32) -> Result<Fd, Errno> {
        self.k().with(|k| {
            let kind = match (domain, ty) {
                (libc::AF_INET | libc::AF_INET6, libc::SOCK_DGRAM) => Kind::Udp,
                (libc::AF_INET | libc::AF_INET6 | libc::AF_UNIX, libc::SOCK_STREAM) => Kind::Stream,
                (libc::AF_PACKET, libc::SOCK_RAW) => Kind::Packet,
                (libc::AF_INET6, libc::SOCK_RAW) => Kind::Raw6,
                _ => return Err(libc::EAFNOSUPPORT),
            };
            let (fd, serial, stale) = alloc_fd(k)?;
            let proto = if kind == Kind::Packet { u16::from_be(protocol as u16) as i32 } else { protocol };
            let now = k.now_ns();
            k.log.ev(now, "sys.socket", domain as u64, ty as u64, &[]);
            k.socks.insert(
                fd,
                Sock {
                    serial,
                    domain,
                    proto,
                    kind,
                    local: None,
                    peer: None,
                    pktinfo4: false,
                    pktinfo6: false,
                    joined: vec![],
                    rxq: VecDeque::new(),
                    rd_ready: false,
                    wr_ready: kind != Kind::Stream,
                    rd_waker: None,
                    wr_waker: None,
                    err: None,
                    listening: false,
                    acceptq: VecDeque::new(),
                    conn: None,
                    connecting: false,
                    dead: false,
                },
            );
            Ok((fd, stale))
        })
        .map(|(fd, stale)| {
            if let Some((c, side)) = stale {
                self.k().end_close(c, side);
            }
            fd
        })
    }

    fn close(&self, fd: Fd) {
        let c = self.k().with(|k| {
            let c = close_locked(k, fd, false);
            if k.socks.remove(&fd).is_some() {
                unsafe { libc::close(fd) };
            }
            c
        });
        if let Some((conn, side)) = c {
            self.k().end_close(conn, side);
        }
    }

    fn bind(&self, fd: Fd, a: &[u8]) -> Result<(), Errno> {
        self.k().with(|k| {
            let want = addr::decode(a).ok_or(libc::EINVAL)?;
            let (kind, domain) = {
                let s = sock_mut(k, fd)?;
                (s.kind, s.domain)
            };
            let bound = match want {
                Addr::Inet(mut sa) => {
                    let fam_ok = matches!((domain, &sa), (libc::AF_INET, SocketAddr::V4(_)) | (libc::AF_INET6, SocketAddr::V6(_)));
                    if !fam_ok {
                        return Err(libc::EAFNOSUPPORT);
                    }
                    if !sa.ip().is_unspecified() && !k.is_local(sa.ip()) {
                        return Err(libc::EADDRNOTAVAIL);
                    }
                    if sa.port() == 0 {
                        sa.set_port(k.alloc_port(kind));
                    } else {
                        for (ofd, o) in k.socks.iter() {
                            if *ofd == fd || o.dead || o.kind != kind {
                                continue;
                            }
                            if kind == Kind::Stream && !o.listening {
                                continue;
                            }
                            if let Some(Addr::Inet(ob)) = &o.local {
                                if ob.port() != sa.port() {
                                    continue;
                                }
                                let clash = match (ob.ip(), sa.ip()) {
                                    (IpAddr::V4(x), IpAddr::V4(y)) => x == y || x.is_unspecified() || y.is_unspecified(),
                                    (IpAddr::V6(x), IpAddr::V6(y)) => x == y || x.is_unspecified() || y.is_unspecified(),
                                    (IpAddr::V6(x), IpAddr::V4(_)) | (IpAddr::V4(_), IpAddr::V6(x)) => x.is_unspecified(),
                                };
                                if clash {
                                    return Err(libc::EADDRINUSE);
                                }
                            }
                        }
                    }
                    Addr::Inet(sa)
                }
                Addr::Unix(n) => {
                    if domain != libc::AF_UNIX {
                        return Err(libc::EAFNOSUPPORT);
                    }
                    let clash = k.socks.iter().any(|(ofd, o)| {
                        *ofd != fd && !o.dead && matches!(&o.local, Some(Addr::Unix(m)) if *m == n)
                    });
                    if clash {
                        return Err(libc::EADDRINUSE);
                    }
                    Addr::Unix(n)
                }
                l @ Addr::Ll { .. } => l,
            };
            let now = k.now_ns();
            k.log.ev(now, "sys.bind", ser(k, fd), 0, &addr::encode(&bound));
            sock_mut(k, fd)?.local = Some(bound);
            Ok(())
        })
    }

    fn listen(&self, fd: Fd) -> Result<(), Errno> {
        self.k().with(|k| {
            let s = sock_mut(k, fd)?;
            if s.kind != Kind::Stream || s.local.is_none() {
                return Err(libc::EOPNOTSUPP);
            }
            s.listening = true;
            Ok(())
        })
    }

    fn connect(&self, fd: Fd, a: &[u8]) -> Result<(), Errno> {
        let kh = self.k().clone();
        let res = self.k().with(|k| {
            let to = addr::decode(a).ok_or(libc::EINVAL)?;
            let (kind, domain, local) = {
                let s = sock_mut(k, fd)?;
                (s.kind, s.domain, s.local.clone())
            };
            let now = k.now_ns();
            k.log.ev(now, "sys.connect", ser(k, fd), kind as u64, a);
            match (kind, &to) {
                (Kind::Udp, Addr::Inet(dst)) => {
                    let (_, src_ip) = k.route(dst.ip()).ok_or(libc::ENETUNREACH)?;
                    let port = match &local {
                        Some(Addr::Inet(l)) => l.port(),
                        _ => k.alloc_port(Kind::Udp),
                    };
                    let keep_ip = match &local {
                        Some(Addr::Inet(l)) if !l.ip().is_unspecified() => Some(l.ip()),
                        _ => None,
                    };
                    let ip = keep_ip.unwrap_or(src_ip);
                    let s = sock_mut(k, fd)?;
                    s.local = Some(Addr::Inet(present(domain, SocketAddr::new(ip, port))));
                    s.peer = Some(Addr::Inet(*dst));
                    Ok(None)
                }
                (Kind::Stream, Addr::Inet(dst)) => {
                    let (_, src_ip) = k.route(dst.ip()).ok_or(libc::ENETUNREACH)?;
                    let port = k.alloc_port(Kind::Stream);
                    let id = new_conn(k, [Some(fd), None]);
                    let lat = k.latency();
                    let s = sock_mut(k, fd)?;
                    s.local = Some(Addr::Inet(present(domain, SocketAddr::new(src_ip, port))));
                    s.peer = Some(Addr::Inet(*dst));
                    s.conn = Some((id, 0));
                    s.connecting = true;
                    s.wr_ready = false;
                    Ok(Some((id, *dst, Instant::now() + lat * 2)))
                }
                (Kind::Stream, Addr::Unix(_)) => {
                    /* erbium only ever probes its own stale control socket */
                    Err(libc::ECONNREFUSED)
                }
                _ => Err(libc::EAFNOSUPPORT),
            }
        })?;
        if let Some((id, dst, at)) = res {
            kh.later(at, move |kk| {
                let timeout = kk.with(|k| {
                    let key = SocketAddr::new(addr::unmap(dst.ip()), dst.port());
                    let mode = k.tcp_listeners.get(&key).map(|l| l.mode).unwrap_or(ListenMode::Refuse);
                    let now = k.now_ns();
                    k.log.ev(now, "tcp.syn", id as u64, mode as u64, &[]);
                    match mode {
                        ListenMode::Accept => {
                            let stream = ActorStream { k: kk.clone(), conn: id, side: 1 };
                            let l = k.tcp_listeners.get(&key).unwrap();
                            if l.tx.send(stream).is_err() {
                                if let Some(s) = k.socks.get_mut(&fd) {
                                    s.err = Some(libc::ECONNREFUSED);
                                }
                            }
                            if let Some(s) = k.socks.get_mut(&fd) {
                                s.connecting = false;
                                s.wake_wr();
                            }
                            false
                        }
                        ListenMode::Refuse => {
                            k.conns[id].closed[1] = true;
                            if let Some(s) = k.socks.get_mut(&fd) {
                                s.connecting = false;
                                s.err = Some(libc::ECONNREFUSED);
                                s.wake_wr();
                                s.wake_rd();
                            }
                            false
                        }
                        ListenMode::Blackhole => true,
                    }
                });
                if timeout {
                    /* Linux gives up after tcp_syn_retries (about 127 s) */
                    kk.later(Instant::now() + Duration::from_secs(127), move |k3| {
                        k3.with(|k| {
                            k.conns[id].closed[1] = true;
                            if let Some(s) = k.socks.get_mut(&fd) {
                                if s.connecting {
                                    s.connecting = false;
                                    s.err = Some(libc::ETIMEDOUT);
                                    s.wake_wr();
                                    s.wake_rd();
                                }
                            }
                        })
                    });
                }
            });
            return Err(libc::EINPROGRESS);
        }
        Ok(())
    }

    fn take_error(&self, fd: Fd) -> Result<(), Errno> {
        self.k().with(|k| match sock_mut(k, fd)?.err.take() {
            Some(e) => Err(e),
            None => Ok(()),
        })
    }

    fn accept(&self, fd: Fd) -> Result<(Fd, Vec<u8>), Errno> {
        self.k().with(|k| {
            let (domain, item) = {
                let s = sock_mut(k, fd)?;
                if !s.listening {
                    return Err(libc::EINVAL);
                }
                (s.domain, s.acceptq.pop_front())
            };
            let Some((id, local, peer)) = item else {
                return Err(libc::EAGAIN);
            };
            let (nfd, serial, stale) = alloc_fd(k)?;
            let now = k.now_ns();
            k.log.ev(now, "sys.accept", id as u64, 0, &addr::encode(&peer));
            k.conns[id].fd[1] = Some(nfd);
            let has_data = !k.conns[id].pipes[0].buf.is_empty() || k.conns[id].pipes[0].fin_rcvd;
            k.socks.insert(
                nfd,
                Sock {
                    serial,
                    domain,
                    proto: 0,
                    kind: Kind::Stream,
                    local: Some(local),
                    peer: Some(peer.clone()),
                    pktinfo4: false,
                    pktinfo6: false,
                    joined: vec![],
                    rxq: VecDeque::new(),
                    rd_ready: has_data,
                    wr_ready: true,
                    rd_waker: None,
                    wr_waker: None,
                    err: None,
                    listening: false,
                    acceptq: VecDeque::new(),
                    conn: Some((id, 1)),
                    connecting: false,
                    dead: false,
                },
            );
            Ok((nfd, addr::encode(&peer), stale))
        })
        .map(|(fd, a, stale)| {
            if let Some((c, side)) = stale {
                self.k().end_close(c, side);
            }
            (fd, a)
        })
    }

    fn getsockname(&self, fd: Fd) -> Result<Vec<u8>, Errno> {
        self.k().with(|k| {
            let s = sock_mut(k, fd)?;
            Ok(match &s.local {
                Some(a) => addr::encode(a),
                None => match s.domain {
                    libc::AF_INET => addr::encode_v4(&SocketAddrV4::new(Ipv4Addr::UNSPECIFIED, 0)),
                    libc::AF_INET6 => addr::encode_v6(&SocketAddrV6::new(Ipv6Addr::UNSPECIFIED, 0, 0, 0)),
                    _ => addr::encode(&Addr::Unix(UnixName::Unnamed)),
                },
            })
        })
    }

    fn getpeername(&self, fd: Fd) -> Result<Vec<u8>, Errno> {
        self.k().with(|k| sock_mut(k, fd)?.peer.as_ref().map(addr::encode).ok_or(libc::ENOTCONN))
    }

    fn setsockopt(&self, fd: Fd, name: &str, val: &[u8]) -> Result<(), Errno> {
        self.k().with(|k| {
            let now = k.now_ns();
            k.log.ev(now, "sys.setsockopt", ser(k, fd), 0, name.as_bytes());
            let s = sock_mut(k, fd)?;
            let on = val.iter().any(|b| *b != 0);
            if name.ends_with("::Ipv4PacketInfo") {
                if s.kind == Kind::Udp {
                    s.pktinfo4 = on;
                    Ok(())
                } else {
                    Err(libc::ENOPROTOOPT)
                }
            } else if name.ends_with("::Ipv6RecvPacketInfo") {
                if s.domain == libc::AF_INET6 {
                    s.pktinfo6 = on;
                    Ok(())
                } else {
                    Err(libc::ENOPROTOOPT)
                }
            } else if name.ends_with("::ReusePort") || name.ends_with("::ReuseAddr") {
                Ok(())
            } else if name.ends_with("::Ipv6AddMembership") {
                if s.domain != libc::AF_INET6 || val.len() < 16 {
                    return Err(libc::EINVAL);
                }
                let mut o = [0u8; 16];
                o.copy_from_slice(&val[..16]);
                s.joined.push(Ipv6Addr::from(o));
                Ok(())
            } else if name == "41:16" || name == "41:18" {
                if s.domain == libc::AF_INET6 { Ok(()) } else { Err(libc::ENOPROTOOPT) }
            } else {
                Err(libc::ENOPROTOOPT)
            }
        })
    }

    fn recvmsg(&self, fd: Fd, buf: &mut [u8], _flags: i32) -> Result<RecvOut, Errno> {
        let stream = self.k().with(|k| {
            let eintr_p = if k.faults_on() { k.knobs.eintr_p } else { 0.0 };
            let s = sock_mut(k, fd)?;
            if s.kind == Kind::Stream {
                if s.connecting {
                    return Err(libc::ENOTCONN);
                }
                if let Some(e) = s.err.take() {
                    return Err(e);
                }
                return Ok(Err(s.conn.ok_or(libc::ENOTCONN)?));
            }
            if let Some(e) = s.err.take() {
                return Err(e);
            }
            if s.rxq.is_empty() {
                return Err(libc::EAGAIN);
            }
            /* (EINTR is not injected: every receive erbium makes is non-blocking, and a call
             * that does not sleep cannot be interrupted; the knob is kept at zero) */
            let _ = eintr_p;
            let s = sock_mut(k, fd)?;
            let d = s.rxq.pop_front().unwrap();
            let n = d.data.len().min(buf.len());
            buf[..n].copy_from_slice(&d.data[..n]);
            let now = k.now_ns();
            k.log.ev(now, "sys.recvmsg", ser(k, fd), n as u64, &[]);
            Ok(Ok(RecvOut { len: n, addr: Some(d.src), cmsgs: d.cmsgs }))
        })?;
        match stream {
            Ok(out) => Ok(out),
            Err((conn, side)) => {
                let n = self.k().end_read(conn, side, buf)?;
                self.k().with(|k| {
                    let now = k.now_ns();
                    k.log.ev(now, "sys.read", conn as u64, (n == 0) as u64, &[]);
                });
                Ok(RecvOut { len: n, addr: None, cmsgs: vec![] })
            }
        }
    }

    fn sendmsg(&self, fd: Fd, buf: &[u8], cmsgs: &[Cmsg], _flags: i32, to: Option<&[u8]>) -> Result<usize, Errno> {
        if crate::vfs::with_disk(|d| d.dead) {
            /* the process was killed inside a disk call further up this stack:
             * nothing it "does" from here on happens */
            return Err(libc::EBADF);
        }
        let kh = self.k().clone();
        enum Next {
            Done(usize),
            Stream(usize, usize),
            Udp { seq: u64, src: SocketAddr, dst: SocketAddr, from_serial: u64 },
        }
        let next = self.k().with(|k| {
            let (kind, domain, local, peer, proto) = {
                let s = sock_mut(k, fd)?;
                if let (Kind::Udp, Some(e)) = (s.kind, s.err.take()) {
                    return Err(e);
                }
                (s.kind, s.domain, s.local.clone(), s.peer.clone(), s.proto)
            };
            match kind {
                Kind::Stream => {
                    let s = sock_mut(k, fd)?;
                    if s.connecting {
                        return Err(libc::ENOTCONN);
                    }
                    if let Some(e) = s.err.take() {
                        return Err(e);
                    }
                    let (c, side) = s.conn.ok_or(libc::ENOTCONN)?;
                    Ok(Next::Stream(c, side))
                }
                Kind::Packet => {
                    let Some(Addr::Ll { ifindex, .. }) = to.and_then(addr::decode) else {
                        return Err(libc::EDESTADDRREQ);
                    };
                    let kindv = OutKind::Frame { ifidx: ifindex as u32, data: buf.to_vec() };
                    let err = match k.iface(ifindex as u32) {
                        None => Some(libc::ENXIO),
                        Some(_) if buf.len() < 14 => Some(libc::EINVAL),
                        Some(i) if buf.len() > i.mtu as usize + 14 => Some(libc::EMSGSIZE),
                        Some(_) => None,
                    };
                    let mut err = err;
                    if err.is_none() && k.knobs.send_err_p > 0.0 && k.faults_on() && k.rng.chance(k.knobs.send_err_p) {
                        err = Some(*k.rng.pick(&[libc::ENOBUFS, libc::ENETDOWN]));
                        k.next_out_injected = true;
                        k.stat("fault.sendmsg_error");
                    }
                    k.record_out(fd, kindv, err);
                    match err {
                        Some(e) => Err(e),
                        None => Ok(Next::Done(buf.len())),
                    }
                }
                Kind::Raw6 => {
                    let Some(Addr::Inet(SocketAddr::V6(dst))) = to.and_then(addr::decode) else {
                        return Err(libc::EDESTADDRREQ);
                    };
                    let mut ifidx = dst.scope_id();
                    let mut src: Option<Ipv6Addr> = None;
                    let mut err = None;
                    for c in cmsgs {
                        if c.level == libc::IPPROTO_IPV6 && c.ty == libc::IPV6_PKTINFO {
                            match addr::decode_pktinfo6(&c.data) {
                                Some((a, i)) => {
                                    if i != 0 {
                                        if ifidx != 0 && ifidx != i && (is_ll6(*dst.ip()) || dst.ip().is_multicast()) {
                                            err = Some(libc::EINVAL);
                                        }
                                        ifidx = i;
                                    }
                                    if !a.is_unspecified() {
                                        if k.is_local(IpAddr::V6(a)) {
                                            src = Some(a)
                                        } else {
                                            err = Some(libc::EINVAL)
                                        }
                                    }
                                }
                                None => err = Some(libc::EINVAL),
                            }
                        } else {
                            err = Some(libc::EINVAL);
                        }
                    }
                    if dst.port() != 0 && dst.port() as i32 != proto {
                        err = Some(libc::EINVAL);
                    }
                    if err.is_none() && (is_ll6(*dst.ip()) || dst.ip().is_multicast()) {
                        if ifidx == 0 {
                            err = Some(libc::ENETUNREACH);
                        } else if k.iface(ifidx).is_none() {
                            err = Some(libc::ENODEV);
                        }
                    }
                    if err.is_none() && ifidx == 0 {
                        match k.route(IpAddr::V6(*dst.ip())) {
                            Some((i, _)) => ifidx = i,
                            None => err = Some(libc::ENETUNREACH),
                        }
                    }
                    let src = src.unwrap_or_else(|| {
                        let want_ll = is_ll6(*dst.ip()) || dst.ip().is_multicast();
                        k.iface(ifidx)
                            .and_then(|i| i.v6.iter().find(|(a, _)| is_ll6(*a) == want_ll).or(i.v6.first()).map(|(a, _)| *a))
                            .unwrap_or(Ipv6Addr::UNSPECIFIED)
                    });
                    if err.is_none() && buf.len() > k.iface(ifidx).map(|i| i.mtu as usize).unwrap_or(1500).max(1280) - 40 + 65535 {
                        err = Some(libc::EMSGSIZE);
                    }
                    if err.is_none() && k.knobs.send_err_p > 0.0 && k.faults_on() && k.rng.chance(k.knobs.send_err_p) {
                        err = Some(*k.rng.pick(&[libc::ENOBUFS, libc::EPERM, libc::ENETUNREACH]));
                        k.next_out_injected = true;
                        k.stat("fault.sendmsg_error");
                    }
                    k.record_out(fd, OutKind::Icmp6 { ifidx, src, dst: *dst.ip(), data: buf.to_vec() }, err);
                    match err {
                        Some(e) => Err(e),
                        None => Ok(Next::Done(buf.len())),
                    }
                }
                Kind::Udp => {
                    let dst = match to.and_then(addr::decode) {
                        Some(Addr::Inet(d)) => {
                            if peer.is_some() {
                                return Err(libc::EISCONN);
                            }
                            d
                        }
                        Some(_) => return Err(libc::EAFNOSUPPORT),
                        None => match &peer {
                            Some(Addr::Inet(p)) => *p,
                            _ => return Err(libc::EDESTADDRREQ),
                        },
                    };
                    let dst_real = SocketAddr::new(addr::unmap(dst.ip()), dst.port());
                    let v4_path = dst_real.is_ipv4();
                    if domain == libc::AF_INET && !dst.is_ipv4() {
                        return Err(libc::EAFNOSUPPORT);
                    }
                    let mut err: Option<Errno> = None;
                    let mut src_ip: Option<IpAddr> = None;
                    for c in cmsgs {
                        match (c.level, c.ty) {
                            (libc::IPPROTO_IP, libc::IP_PKTINFO) if v4_path => match addr::decode_pktinfo4(&c.data) {
                                Some((_ifi, spec, _)) => {
                                    if !spec.is_unspecified() {
                                        if k.is_local(IpAddr::V4(spec)) {
                                            src_ip = Some(IpAddr::V4(spec));
                                        } else {
                                            err = Some(libc::EINVAL);
                                        }
                                    }
                                }
                                None => err = Some(libc::EINVAL),
                            },
                            (libc::IPPROTO_IPV6, libc::IPV6_PKTINFO) if domain == libc::AF_INET6 => {
                                match addr::decode_pktinfo6(&c.data) {
                                    Some((a, _ifi)) => {
                                        if v4_path {
                                            match a.to_ipv4_mapped() {
                                                Some(v4) if v4.is_unspecified() => (),
                                                Some(v4) if k.is_local(IpAddr::V4(v4)) => src_ip = Some(IpAddr::V4(v4)),
                                                _ => err = Some(libc::EINVAL),
                                            }
                                        } else if !a.is_unspecified() {
                                            if k.is_local(IpAddr::V6(a)) {
                                                src_ip = Some(IpAddr::V6(a));
                                            } else {
                                                err = Some(libc::EINVAL);
                                            }
                                        }
                                    }
                                    None => err = Some(libc::EINVAL),
                                }
                            }
                            _ => err = Some(libc::EINVAL),
                        }
                    }
                    let (lip, lport) = match &local {
                        Some(Addr::Inet(l)) => (Some(addr::unmap(l.ip())), l.port()),
                        _ => (None, 0),
                    };
                    let lport = if lport == 0 {
                        let p = k.alloc_port(Kind::Udp);
                        let unspec: IpAddr = if domain == libc::AF_INET { Ipv4Addr::UNSPECIFIED.into() } else { Ipv6Addr::UNSPECIFIED.into() };
                        sock_mut(k, fd)?.local = Some(Addr::Inet(SocketAddr::new(unspec, p)));
                        p
                    } else {
                        lport
                    };
                    let src_ip = match src_ip {
                        Some(ip) => ip,
                        None => match lip {
                            Some(ip) if !ip.is_unspecified() => ip,
                            _ => match k.route(dst_real.ip()) {
                                Some((_, ip)) => ip,
                                None => {
                                    err = err.or(Some(libc::ENETUNREACH));
                                    if v4_path { Ipv4Addr::UNSPECIFIED.into() } else { Ipv6Addr::UNSPECIFIED.into() }
                                }
                            },
                        },
                    };
                    if err.is_none() && buf.len() > 65507 {
                        err = Some(libc::EMSGSIZE);
                    }
                    if err.is_none() && k.knobs.send_err_p > 0.0 && k.faults_on() && k.rng.chance(k.knobs.send_err_p) {
                        /* a failing system call: no buffer space, a firewall rule, a route gone */
                        err = Some(*k.rng.pick(&[libc::ENOBUFS, libc::EPERM, libc::ENETUNREACH]));
                        k.next_out_injected = true;
                        k.stat("fault.sendmsg_error");
                    }
                    let src = SocketAddr::new(src_ip, lport);
                    let seq = k.record_out(fd, OutKind::Udp { src, dst: dst_real, data: buf.to_vec() }, err);
                    match err {
                        Some(e) => Err(e),
                        None => Ok(Next::Udp { seq, src, dst: dst_real, from_serial: k.socks.get(&fd).map(|s| s.serial).unwrap_or(0) }),
                    }
                }
            }
        })?;
        match next {
            Next::Done(n) => Ok(n),
            Next::Stream(c, side) => {
                let n = kh.end_write(c, side, buf)?;
                kh.with(|k| {
                    let now = k.now_ns();
                    /* neither the size nor the content of stream writes is hashed: the body of
                     * /metrics contains the real pid, memory and CPU figures of this worker */
                    let _ = n;
                    k.log.ev(now, "sys.write", c as u64, 0, &[]);
                });
                Ok(n)
            }
            Next::Udp { seq, src, dst, from_serial } => {
                /* hand the datagram to the network */
                let deliveries = kh.with(|k| {
                    let mut v = vec![];
                    if !k.udp_eps.contains_key(&(dst.ip(), dst.port())) {
                        return None;
                    }
                    let faults = k.faults_on();
                    if faults && k.rng.chance(k.knobs.out_loss_p) {
                        k.stat("fault.out_udp_loss");
                        let now = k.now_ns();
                        k.log.ev(now, "net.drop", seq, 0, &[]);
                        return Some(v);
                    }
                    let mut lat = k.latency();
                    if faults && k.rng.chance(k.knobs.out_delay_p) {
                        k.stat("fault.out_udp_delay");
                        lat += Duration::from_millis(k.rng.range(1, k.knobs.out_delay_max_ms.max(1)));
                    }
                    v.push(lat);
                    if faults && k.rng.chance(k.knobs.out_dup_p) {
                        k.stat("fault.out_udp_dup");
                        let extra = Duration::from_millis(k.rng.range(0, k.knobs.out_delay_max_ms.max(1)));
                        v.push(lat + extra);
                    }
                    Some(v)
                });
                match deliveries {
                    None => {
                        /* nobody there: ICMP port unreachable comes back */
                        let lat = kh.with(|k| {
                            k.stat("net.udp_unreachable");
                            k.latency()
                        });
                        kh.later(Instant::now() + lat * 2, move |k| k.inject_icmp_unreachable(src, dst));
                    }
                    Some(v) => {
                        for lat in v {
                            let data = buf.to_vec();
                            kh.later(Instant::now() + lat, move |kk| {
                                kk.with(|k| {
                                    let at_ns = k.now_ns();
                                    if let Some(tx) = k.udp_eps.get(&(dst.ip(), dst.port())) {
                                        let _ = tx.send(UdpIn { at_ns, src, dst, data, from_serial });
                                    }
                                })
                            });
                        }
                    }
                }
                Ok(buf.len())
            }
        }
    }

    fn shutdown(&self, fd: Fd, _how: i32) -> Result<(), Errno> {
        let c = self.k().with(|k| sock_mut(k, fd)?.conn.ok_or(libc::ENOTCONN))?;
        self.k().end_shutdown(c.0, c.1, false);
        Ok(())
    }

    fn poll_ready(&self, fd: Fd, interest: Interest, cx: &mut Context<'_>) -> Poll<Result<(), Errno>> {
        self.k().with(|k| {
            let faults = k.faults_on();
            let (yield_p, spurious_p) = (k.knobs.yield_p, if faults { k.knobs.spurious_p } else { 0.0 });
            let Some(s) = k.socks.get_mut(&fd) else {
                return Poll::Ready(Err(libc::EBADF));
            };
            if s.dead {
                /* the process this descriptor belonged to no longer exists */
                return Poll::Pending;
            }
            let ready = match interest {
                Interest::Read => s.rd_ready,
                Interest::Write => s.wr_ready,
            };
            if ready {
                if yield_p > 0.0 && k.rng.chance(yield_p) {
                    k.stat("sched.yield");
                    cx.waker().wake_by_ref();
                    return Poll::Pending;
                }
                return Poll::Ready(Ok(()));
            }
            if spurious_p > 0.0 && interest == Interest::Read && k.rng.chance(spurious_p) {
                k.stat("fault.spurious_ready");
                k.socks.get_mut(&fd).unwrap().rd_ready = true;
                return Poll::Ready(Ok(()));
            }
            let s = k.socks.get_mut(&fd).unwrap();
            match interest {
                Interest::Read => s.rd_waker = Some(cx.waker().clone()),
                Interest::Write => s.wr_waker = Some(cx.waker().clone()),
            }
            Poll::Pending
        })
    }

    fn clear_ready(&self, fd: Fd, interest: Interest) {
        self.k().with(|k| {
            if let Some(s) = k.socks.get_mut(&fd) {
                /* level check first: never lose an event that is already there */
                match interest {
                    Interest::Read => {
                        let has = !s.rxq.is_empty() || !s.acceptq.is_empty() || s.err.is_some();
                        let stream_has = s.conn.map(|(c, side)| {
                            let p = &k.conns[c].pipes[1 - side];
                            !p.buf.is_empty() || p.fin_rcvd || p.rst
                        });
                        let s = k.socks.get_mut(&fd).unwrap();
                        s.rd_ready = has || stream_has.unwrap_or(false);
                    }
                    Interest::Write => {
                        let space = s.conn.map(|(c, side)| {
                            let p = &k.conns[c].pipes[side];
                            p.buf.len() + p.inflight < k.knobs.sndbuf || p.rst || k.conns[c].closed[1 - side]
                        });
                        let s = k.socks.get_mut(&fd).unwrap();
                        s.wr_ready = space.unwrap_or(true) && !s.connecting;
                    }
                }
            }
        })
    }

    fn poll_yield(&self, _site: &'static str, cx: &mut Context<'_>) -> Poll<()> {
        self.k().with(|k| {
            if k.knobs.yield_p > 0.0 && k.rng.chance(k.knobs.yield_p) {
                k.stat("sched.yield");
                cx.waker().wake_by_ref();
                Poll::Pending
            } else {
                Poll::Ready(())
            }
        })
    }
}
