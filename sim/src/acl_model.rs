//! Reference evaluator for erbium.conf(5) ACLs, written from the manual:
//! rules are tried in order, the first whose conditions all hold decides;
//! no matching rule means no access.

use crate::rng::Rng;
use crate::wa_plan::AclM;
use std::net::{IpAddr, Ipv4Addr, Ipv6Addr};

#[derive(Clone, Debug, PartialEq)]
pub enum ClientAddr {
    Ip(IpAddr),
    Unix,
}

fn parse_prefix(s: &str) -> Option<(IpAddr, u8)> {
    let (a, l) = s.split_once('/')?;
    Some((a.parse().ok()?, l.parse().ok()?))
}

/// Does `ip` lie inside the written prefix?  Both sides are masked; an IPv4
/// prefix matches IPv4-mapped IPv6 sources and vice versa.
pub fn prefix_contains(prefix: &str, ip: IpAddr) -> bool {
    prefix_contains_opt(prefix, ip).unwrap_or(false)
}

/// None: the manual does not settle it (an IPv6 prefix shorter than /96 that
/// happens to cover ::ffff:0:0/96, asked about an IPv4 client: inside the
/// prefix when the client is seen IPv4-mapped, not an IPv6 address otherwise).
pub fn prefix_contains_opt(prefix: &str, ip: IpAddr) -> Option<bool> {
    let Some((net, len)) = parse_prefix(prefix) else { return Some(false) };
    if let (IpAddr::V6(n), true) = (net, len < 96) {
        let is_v4_client = match ip {
            IpAddr::V4(_) => true,
            IpAddr::V6(a) => a.to_ipv4_mapped().is_some(),
        };
        let m = if len == 0 { 0 } else { !0u128 << (128 - len as u32) };
        if is_v4_client && u128::from(n) & m == 0xffff_0000_0000u128 & m {
            return None;
        }
    }
    Some(prefix_contains_inner(net, len, ip))
}

fn prefix_contains_inner(net: IpAddr, len: u8, ip: IpAddr) -> bool {
    let unmap = |ip: IpAddr| match ip {
        IpAddr::V6(v6) => v6.to_ipv4_mapped().map(IpAddr::V4).unwrap_or(ip),
        _ => ip,
    };
    match (net, unmap(ip)) {
        (IpAddr::V4(n), IpAddr::V4(a)) => {
            let m = if len == 0 { 0 } else { !0u32 << (32 - len.min(32) as u32) };
            u32::from(n) & m == u32::from(a) & m
        }
        (IpAddr::V6(n), IpAddr::V6(a)) => {
            let m = if len == 0 { 0 } else { !0u128 << (128 - len.min(128) as u32) };
            u128::from(n) & m == u128::from(a) & m
        }
        (IpAddr::V6(n), IpAddr::V4(a)) => {
            /* a ::ffff:a.b.c.d/96+n prefix speaks about IPv4 clients */
            let m = if len == 0 { 0 } else { !0u128 << (128 - len.min(128) as u32) };
            len >= 96 && u128::from(n) & m == u128::from(a.to_ipv6_mapped()) & m
        }
        _ => false,
    }
}

pub fn rule_matches(rule: &AclM, c: &ClientAddr) -> Option<bool> {
    if let Some(u) = rule.unix {
        if (*c == ClientAddr::Unix) != u {
            return Some(false);
        }
    }
    if let Some(subnets) = &rule.subnets {
        match c {
            ClientAddr::Ip(ip) => {
                let rs: Vec<Option<bool>> = subnets.iter().map(|s| prefix_contains_opt(s, *ip)).collect();
                if rs.iter().any(|r| *r == Some(true)) {
                    return Some(true);
                }
                if rs.iter().any(|r| r.is_none()) {
                    return None;
                }
                return Some(false);
            }
            ClientAddr::Unix => return Some(false),
        }
    }
    Some(true)
}

/// permission names as in `apply-access`
pub fn granted(rules: &[AclM], c: &ClientAddr, perm: &str) -> bool {
    granted_opt(rules, c, perm).unwrap_or(false)
}

/// None when the documentation does not settle the outcome.
pub fn granted_opt(rules: &[AclM], c: &ClientAddr, perm: &str) -> Option<bool> {
    for r in rules {
        let m = rule_matches(r, c)?;
        if m {
            return Some(r.access.iter().any(|a| match (a.as_str(), perm) {
                (x, y) if x == y => true,
                ("dhcp-client", "dns-recursion") => true,
                ("http-ro", "http-metrics") | ("http-ro", "http-leases") => true,
                _ => false,
            }));
        }
    }
    Some(false)
}

pub fn gen_prefix(r: &mut Rng, pool4: &[Ipv4Addr], pool6: &[Ipv6Addr]) -> String {
    if r.chance(0.6) {
        let a = *r.pick(pool4);
        let len = *r.pick(&[0u8, 1, 8, 16, 23, 24, 25, 30, 31, 32]);
        let m = if len == 0 { 0 } else { !0u32 << (32 - len as u32) };
        /* written with or without host bits */
        let w = if r.chance(0.4) { a } else { Ipv4Addr::from(u32::from(a) & m) };
        format!("{}/{}", w, len)
    } else if r.chance(0.8) {
        let a = *r.pick(pool6);
        let len = *r.pick(&[0u8, 3, 16, 48, 56, 64, 65, 127, 128]);
        let m = if len == 0 { 0 } else { !0u128 << (128 - len as u32) };
        let w = if r.chance(0.4) { a } else { Ipv6Addr::from(u128::from(a) & m) };
        format!("{}/{}", w, len)
    } else {
        /* an IPv4-mapped prefix */
        let a = *r.pick(pool4);
        let len = *r.pick(&[96u8, 104, 120, 128]);
        let m = !0u128 << (128 - len as u32);
        format!("{}/{}", Ipv6Addr::from(u128::from(a.to_ipv6_mapped()) & m), len)
    }
}

pub fn gen_acls(r: &mut Rng, pool4: &[Ipv4Addr], pool6: &[Ipv6Addr]) -> Vec<AclM> {
    let perms = ["dns-recursion", "http", "http-metrics", "http-leases", "dhcp-client"];
    (0..r.range(0, 6))
        .map(|_| AclM {
            subnets: if r.chance(0.75) { Some((0..r.range(1, 3)).map(|_| gen_prefix(r, pool4, pool6)).collect()) } else { None },
            unix: match r.below(6) {
                0 => Some(true),
                1 => Some(false),
                _ => None,
            },
            access: perms.iter().filter(|_| r.chance(0.45)).map(|s| s.to_string()).collect(),
        })
        .collect()
}
