//! World B: boot erbium's DNS service on the simulated host, run client and
//! upstream actors against it, and evaluate the oracles of C03, C04, C05,
//! C06, C07, C08 (DNS half), C14, C15 and C16 over the recorded history.

use crate::acl_model::{self, ClientAddr};
use crate::addr::Addr;
use crate::codec_dns::*;
use crate::common::{hex, RunResult};
use crate::kernel::{ActorStream, Iface, KHandle, Kernel, Knobs, ListenMode, OutKind, UdpIn};
use crate::wb_plan::*;
use std::collections::{BTreeMap, BTreeSet, HashMap};
use std::net::{IpAddr, Ipv6Addr, SocketAddr};
use std::sync::{Arc, Mutex};
use tokio::time::{Duration, Instant};

const LAN_IF: u32 = 2;
const UP_IF: u32 = 3;

#[derive(Clone, Debug)]
struct UpReply {
    serial: u32,
    qidx: usize,
    upstream: usize,
    tcp: bool,
    msg: Msg,
    /// simulated instant the reply was handed to erbium's socket / stream
    handed_ns: u64,
    /// latest instant by which erbium can have had the complete reply
    handed_hi_ns: u64,
    /// what was really put on the wire (TC stub, wrong id...) is not `msg`
    as_sent_is_msg: bool,
}

#[derive(Default)]
struct Shared {
    replies: Vec<UpReply>,
    /// per query: (upstream, at_ns, tcp) of every transmission an upstream saw
    seen: Vec<Vec<(usize, u64, bool)>>,
    /// any upstream contact per lower-cased qname text
    contact: HashMap<String, BTreeSet<usize>>,
    tcp_frames: Vec<Vec<(u64, Vec<u8>)>>,
    tcp_done: Vec<Option<String>>,
    handed_at: Vec<Vec<u64>>,
    /// send instants decided by an actor at run time (pipelined connections)
    sent_override: HashMap<usize, u64>,
    /// per query: instants at which a complete UDP answer reached a socket erbium had open
    delivered_udp: Vec<Vec<u64>>,
    /// latest instant by which erbium can have had the complete query (TCP: after the last
    /// segment was written plus one link latency)
    arrived_hi: Vec<u64>,
    bad_forwarded: Vec<String>,
    next_serial: u32,
    /// times an upstream cut a connection inside the second of two pipelined replies
    glued: u32,
    /// C14 on the byte strings that flow: (kind, detail, query)
    codec_findings: Vec<(String, String, usize)>,
    codec_checked: [u64; 2],
    truncated_with_records: u32,
    /// hostile upstream replies as sent, per question
    hostile_sent: HashMap<(String, u16, u16), Vec<Vec<u8>>>,
}

type Sh = Arc<Mutex<Shared>>;

fn ifaces_of(p: &PlanB) -> Vec<Iface> {
    vec![
        Iface { ifidx: 1, name: "lo".into(), mac: [0; 6], mtu: 65536, v4: vec![(std::net::Ipv4Addr::LOCALHOST, 8)], v6: vec![(Ipv6Addr::LOCALHOST, 128)], multicast: false },
        Iface { ifidx: LAN_IF, name: "lan0".into(), mac: [2, 0, 0x5e, 0x20, 0, 1], mtu: 1500, v4: std::iter::once(p.lan4).chain(p.lan4_alias.map(|a| (a, p.lan4.1))).collect(), v6: vec![(Ipv6Addr::new(0xfe80, 0, 0, 0, 0, 0, 0, 2), 64), p.lan6], multicast: true },
        Iface { ifidx: UP_IF, name: "wan0".into(), mac: [2, 0, 0x5e, 0x20, 0, 2], mtu: 1500, v4: vec![p.up4], v6: vec![(Ipv6Addr::new(0xfe80, 0, 0, 0, 0, 0, 0, 3), 64), p.up6], multicast: true },
    ]
}

fn key_of(q: &QuerySpec) -> (String, u16, u16) {
    (q.qname.lower().to_text(), q.qtype, q.qclass)
}

/// Which planned query does a forwarded question belong to: the latest one
/// with that question that has been sent by now.
fn spec_for(plan: &PlanB, qn: &Name, qtype: u16, qclass: u16, now_ms: u64) -> Option<usize> {
    let k = (qn.lower().to_text(), qtype, qclass);
    plan.queries.iter().enumerate().filter(|(_, q)| q.raw.is_none() && key_of(q) == k && q.at_ms <= now_ms).map(|(i, _)| i).last()
}

fn client_query_bytes(plan: &PlanB, qi: usize, cookies: &HashMap<usize, Vec<u8>>) -> Vec<u8> {
    let q = &plan.queries[qi];
    if let Some(raw) = &q.raw {
        return raw.clone();
    }
    let edns = q.edns.as_ref().map(|e| {
        let mut opts = vec![];
        if e.nsid {
            opts.push((3u16, vec![]));
        }
        match &e.cookie {
            CookieSpec::None => (),
            CookieSpec::ClientOnly => opts.push((10, e.client_cookie.to_vec())),
            CookieSpec::FromQuery(i) => {
                let mut c = e.client_cookie.to_vec();
                if let Some(s) = cookies.get(i) {
                    match &plan.cookie_mangle {
                        Some((keep, app)) => {
                            c.extend_from_slice(&s[..(*keep).min(s.len())]);
                            c.extend_from_slice(app);
                        }
                        None => c.extend_from_slice(s),
                    }
                }
                opts.push((10, c));
            }
            CookieSpec::Forged => {
                let mut c = e.client_cookie.to_vec();
                c.extend_from_slice(&[0x42; 32]);
                opts.push((10, c));
            }
            CookieSpec::ForgedUnderGuessedKey { key, form } => {
                use hmac::Mac as _;
                let octets = |ip: IpAddr, mapped: bool| -> Vec<u8> {
                    match (ip, mapped) {
                        (IpAddr::V4(a), false) => a.octets().to_vec(),
                        (IpAddr::V4(a), true) => a.to_ipv6_mapped().octets().to_vec(),
                        (IpAddr::V6(a), _) => a.octets().to_vec(),
                    }
                };
                let mut mac = hmac::Hmac::<sha2::Sha256>::new_from_slice(key).unwrap();
                mac.update(&e.client_cookie);
                mac.update(&octets(q.dst.ip(), form & 1 != 0));
                mac.update(&octets(q.src_ip, form & 2 != 0));
                let mut c = e.client_cookie.to_vec();
                c.extend_from_slice(&mac.finalize().into_bytes());
                opts.push((10, c));
            }
            CookieSpec::Malformed(n) => opts.push((10, vec![0x11; *n])),
        }
        opts.extend(e.extra.clone());
        (e.size, e.do_bit, opts)
    });
    encode(&query(q.id, &q.qname, q.qtype, q.qclass, q.rd, q.cd, edns), false)
}

async fn upstream_udp(k: Arc<Kernel>, plan: Arc<PlanB>, sh: Sh, ui: usize, mut rx: tokio::sync::mpsc::UnboundedReceiver<UdpIn>, t0: Instant) {
    let mut tx_count: HashMap<usize, u32> = HashMap::new();
    while let Some(u) = rx.recv().await {
        let now_ms = Instant::now().saturating_duration_since(t0).as_millis() as u64;
        let d = match decode(&u.data) {
            Ok(d) => d,
            Err(e) => {
                sh.lock().unwrap().bad_forwarded.push(format!("query erbium sent to upstream {} does not decode: {} ({})", ui, e, hex(&u.data)));
                continue;
            }
        };
        let Some((qn, qt, qc)) = d.msg.question.first().cloned() else { continue };
        sh.lock().unwrap().contact.entry(qn.lower().to_text()).or_default().insert(ui);
        let Some(qi) = spec_for(&plan, &qn, qt, qc, now_ms) else { continue };
        sh.lock().unwrap().seen[qi].push((ui, u.at_ns, false));
        let n = tx_count.entry(qi).or_insert(0);
        *n += 1;
        let nth = *n;
        let spec = &plan.queries[qi];
        let adv = d.msg.edns_size().unwrap_or(512).max(512) as usize;
        let reply_now = |delay_ms: u64, wrong_id: bool, garbage: bool, tc_only: bool| {
            let (k, sh, plan) = (k.clone(), sh.clone(), plan.clone());
            let (src, dst, q, id) = (u.dst, u.src, (qn.clone(), qt, qc), d.msg.id);
            let from_serial = u.from_serial;
            tokio::spawn(async move {
                tokio::time::sleep(Duration::from_millis(delay_ms)).await;
                let serial = {
                    let mut s = sh.lock().unwrap();
                    s.next_serial += 1;
                    s.next_serial
                };
                let spec = &plan.queries[qi];
                let msg = build_answer(&spec.ans, &q, serial, id);
                let mut bytes = encode(&msg, spec.ans.compress);
                let mut as_sent = true;
                if garbage {
                    bytes = vec![id as u8 ^ 0x55; 7];
                    as_sent = false;
                } else if wrong_id {
                    bytes[0] ^= 0x40;
                    as_sent = false;
                } else if tc_only || bytes.len() > adv {
                    /* a real server truncates what does not fit the advertised size */
                    let stub = Msg { id, flags: msg.flags | F_TC, question: msg.question.clone(), ..Default::default() };
                    bytes = encode(&stub, false);
                    as_sent = false;
                }
                own_dns_roundtrip(&sh, &bytes, qi, "upstream reply");
                note_if_hostile_key(&plan, &sh, qi, &bytes);
                let handed = k.now_ns();
                if as_sent {
                    let mut s = sh.lock().unwrap();
                    s.replies.push(UpReply { serial, qidx: qi, upstream: ui, tcp: false, msg, handed_ns: handed, handed_hi_ns: handed, as_sent_is_msg: true });
                    s.handed_at[qi].push(handed);
                }
                /* "delivered": queued on the very socket that sent the transmission answered */
                if k.inject_udp_serial(dst, src, UP_IF, &bytes) == Some(from_serial) && as_sent {
                    sh.lock().unwrap().delivered_udp[qi].push(handed);
                }
            });
        };
        match &spec.up {
            UpBehaviour::Normal { delay_ms } => reply_now(*delay_ms, false, false, false),
            UpBehaviour::Silent => (),
            UpBehaviour::AnswerFrom { nth: from, delay_ms } => {
                if nth > *from {
                    reply_now(*delay_ms, false, false, false)
                }
            }
            UpBehaviour::GarbageFirst { garbage_ms } => {
                if nth == 1 {
                    reply_now(*garbage_ms, false, true, false)
                } else {
                    reply_now(10, false, false, false)
                }
            }
            UpBehaviour::Pattern { mask, delays_ms } => {
                if nth >= 1 && nth <= 8 && mask & (1 << (nth - 1)) != 0 {
                    reply_now(delays_ms.get(nth as usize - 1).copied().unwrap_or(5), false, false, false)
                }
            }
            UpBehaviour::Dup { gap_ms } => {
                reply_now(5, false, false, false);
                reply_now(5 + gap_ms, false, false, false);
            }
            UpBehaviour::WrongId => reply_now(5, true, false, false),
            UpBehaviour::Tc => reply_now(5, false, false, true),
            UpBehaviour::TcPartial { keep } => {
                let (k, sh, plan) = (k.clone(), sh.clone(), plan.clone());
                let (src, dst, q, id, keep) = (u.dst, u.src, (qn.clone(), qt, qc), d.msg.id, *keep as usize);
                tokio::spawn(async move {
                    tokio::time::sleep(Duration::from_millis(5)).await;
                    let serial = {
                        let mut s = sh.lock().unwrap();
                        s.next_serial += 1;
                        s.next_serial
                    };
                    let spec = &plan.queries[qi];
                    let msg = build_answer(&spec.ans, &q, serial, id);
                    let mut cut = msg.clone();
                    cut.flags |= F_TC;
                    cut.answer.truncate(keep.max(1));
                    cut.authority.clear();
                    cut.additional.retain(|r| r.rtype == T_OPT);
                    let bytes = encode(&cut, spec.ans.compress);
                    own_dns_roundtrip(&sh, &bytes, qi, "truncated upstream reply");
                    let handed = k.now_ns();
                    {
                        /* the records of the fragment belong to this (complete) reply */
                        let mut s = sh.lock().unwrap();
                        s.replies.push(UpReply { serial, qidx: qi, upstream: ui, tcp: false, msg, handed_ns: handed, handed_hi_ns: handed, as_sent_is_msg: true });
                        s.truncated_with_records += 1;
                    }
                    k.inject_udp(dst, src, UP_IF, &bytes);
                });
            }
            UpBehaviour::Garbage => reply_now(5, false, true, false),
            UpBehaviour::Hostile { seed } => {
                let (k2, src, dst, q, id, seed) = (k.clone(), u.dst, u.src, (qn.clone(), qt, qc), d.msg.id, *seed);
                let spec_ans = spec.ans.clone();
                let sh2 = sh.clone();
                tokio::spawn(async move {
                    tokio::time::sleep(Duration::from_millis(5)).await;
                    let bytes = hostile_reply(seed, &spec_ans, &q, id);
                    note_hostile(&sh2, &q, &bytes);
                    k2.inject_udp(dst, src, UP_IF, &bytes);
                });
            }
            UpBehaviour::Unreachable => {
                let (k2, a, b) = (k.clone(), u.src, u.dst);
                tokio::spawn(async move {
                    tokio::time::sleep(Duration::from_millis(2)).await;
                    k2.inject_icmp_unreachable(a, b);
                });
            }
        }
    }
}

/// C14, first quantifier, on a byte string that flows through the simulation: if erbium's decoder
/// accepts it as m, then decoding what erbium encodes m to gives m again.
fn own_dns_roundtrip(sh: &Sh, bytes: &[u8], qi: usize, what: &str) {
    use erbium::dns::parse::PktParser;
    let before = crate::common::PANICS.lock().map(|p| p.len()).unwrap_or(0);
    let r = std::panic::catch_unwind(|| match PktParser::new(bytes).get_dns() {
        Err(_) => None,
        Ok(m) => {
            let again = m.serialise();
            Some(match PktParser::new(&again).get_dns() {
                Ok(m2) if m2 == m => Ok(()),
                Ok(m2) => Err(format!("{} {} is accepted as {:?}; re-encoded as {} it decodes as {:?}", what, hex(&bytes[..bytes.len().min(600)]), m, hex(&again[..again.len().min(600)]), m2)),
                Err(e) => Err(format!("{} {} is accepted; re-encoded as {} it does not decode: {}", what, hex(&bytes[..bytes.len().min(600)]), hex(&again[..again.len().min(600)]), e)),
            })
        }
    });
    let mut g = sh.lock().unwrap();
    match r {
        Ok(None) => g.codec_checked[0] += 1,
        Ok(Some(Ok(()))) => g.codec_checked[1] += 1,
        Ok(Some(Err(e))) => g.codec_findings.push(("C14.accepted_message_changed_by_encode_decode".into(), e, qi)),
        Err(_) => {
            /* the panic belongs to this oracle's call into the codec, not to the running server */
            let mine: Vec<(String, String)> = crate::common::PANICS
                .lock()
                .map(|mut p| {
                    let at = before.min(p.len());
                    p.split_off(at)
                })
                .unwrap_or_default();
            let (loc, msg) = mine.first().cloned().unwrap_or_default();
            g.codec_findings.push((format!("C14.codec_panic_on_accepted_message@{}", loc), format!("decoding {} {} and encoding the result panics: {}", what, hex(&bytes[..bytes.len().min(600)]), msg), qi));
        }
    }
}

/// Remember a hostile reply as sent (all but the id, which differs per transmission).
fn note_hostile(sh: &Sh, q: &(Name, u16, u16), bytes: &[u8]) {
    own_dns_roundtrip(sh, bytes, 0, "hostile upstream reply");
    note_sent(sh, q, bytes);
}

/// A well-behaved reply for a question that also draws hostile replies is a candidate too.
fn note_if_hostile_key(plan: &PlanB, sh: &Sh, qi: usize, bytes: &[u8]) {
    let q = &plan.queries[qi];
    if plan.queries.iter().any(|o| matches!(o.up, UpBehaviour::Hostile { .. }) && key_of(o) == key_of(q)) {
        note_sent(sh, &(q.qname.clone(), q.qtype, q.qclass), bytes);
    }
}

fn note_sent(sh: &Sh, q: &(Name, u16, u16), bytes: &[u8]) {
    let mut g = sh.lock().unwrap();
    let v = g.hostile_sent.entry((q.0.lower().to_text(), q.1, q.2)).or_default();
    if !v.iter().any(|o| o.len() == bytes.len() && o.get(2..) == bytes.get(2..)) {
        v.push(bytes.to_vec());
    }
}

/// The records of a section as erbium's own decoder sees them, all but the TTLs.
fn own_records_equal(a: &[erbium::dns::dnspkt::RR], b: &[erbium::dns::dnspkt::RR]) -> bool {
    a.len() == b.len() && a.iter().zip(b).all(|(x, y)| x.domain == y.domain && x.class == y.class && x.rrtype == y.rrtype && x.rdata == y.rdata)
}

fn hostile_reply(seed: u64, ans: &AnsSpec, q: &(Name, u16, u16), id: u16) -> Vec<u8> {
    let mut r = crate::rng::Rng::new(seed, "hostile-reply");
    let mut m = build_answer(ans, q, 0x7fff_0000, id);
    if r.chance(0.7) {
        m.additional.retain(|x| x.rtype != T_OPT);
        m.additional.push(hostile_opt(&mut r));
    }
    if r.chance(0.35) {
        /* OPT pseudo-records where they do not belong: in the answer or authority section,
         * with a root or a real owner name, flags/TTL field zero or not */
        for _ in 0..r.range(1, 2) {
            let opt = Rr {
                name: if r.chance(0.7) { Name(vec![]) } else { q.0.clone() },
                rtype: T_OPT,
                class: *r.pick(&[0u16, 512, 1232, 4096]),
                ttl: *r.pick(&[0u32, 0, 0, 0x8000, 0x0100_0000, u32::MAX]),
                rdata: RData::Opt(vec![]),
            };
            let sec = if r.chance(0.5) { &mut m.answer } else { &mut m.authority };
            let at = r.below(sec.len() as u64 + 1) as usize;
            sec.insert(at, opt);
        }
    }
    let bytes = encode(&m, ans.compress);
    let mut out = if r.chance(0.5) { mutate_dns(&mut r, bytes) } else { bytes };
    /* keep the id so that the reply is accepted as the answer */
    if out.len() >= 2 {
        out[0..2].copy_from_slice(&id.to_be_bytes());
    }
    out
}

/// The next length-prefixed message of the stream; None at end of stream, on an error, or when
/// `wait` runs out first (nothing read so far is lost then: it stays in `inbuf`).
async fn next_frame(s: &mut ActorStream, inbuf: &mut Vec<u8>, wait: Option<Duration>) -> Option<Vec<u8>> {
    let deadline = wait.map(|w| Instant::now() + w);
    loop {
        if inbuf.len() >= 2 {
            let l = u16::from_be_bytes([inbuf[0], inbuf[1]]) as usize;
            if inbuf.len() >= 2 + l {
                let m = inbuf[2..2 + l].to_vec();
                inbuf.drain(..2 + l);
                return Some(m);
            }
        }
        let mut tmp = [0u8; 4096];
        let n = match deadline {
            None => s.read(&mut tmp).await,
            Some(d) => match tokio::time::timeout_at(d.into(), s.read(&mut tmp)).await {
                Ok(r) => r,
                Err(_) => return None,
            },
        };
        match n {
            Ok(0) | Err(_) => return None,
            Ok(n) => inbuf.extend_from_slice(&tmp[..n]),
        }
    }
}

async fn upstream_tcp_conn(k: Arc<Kernel>, plan: Arc<PlanB>, sh: Sh, ui: usize, mut s: ActorStream, t0: Instant) {
    let mut inbuf: Vec<u8> = vec![];
    loop {
        let Some(buf) = next_frame(&mut s, &mut inbuf, None).await else { return };
        let now_ms = Instant::now().saturating_duration_since(t0).as_millis() as u64;
        let d = match decode(&buf) {
            Ok(d) => d,
            Err(e) => {
                sh.lock().unwrap().bad_forwarded.push(format!("TCP query erbium sent to upstream {} does not decode: {}", ui, e));
                continue;
            }
        };
        let Some((qn, qt, qc)) = d.msg.question.first().cloned() else { continue };
        sh.lock().unwrap().contact.entry(qn.lower().to_text()).or_default().insert(ui);
        let Some(qi) = spec_for(&plan, &qn, qt, qc, now_ms) else { continue };
        sh.lock().unwrap().seen[qi].push((ui, k.now_ns(), true));
        let spec = &plan.queries[qi];
        let mode = spec.up_tcp.clone();
        if let UpBehaviour::Hostile { seed } = &spec.up {
            let b = hostile_reply(*seed, &spec.ans, &(qn.clone(), qt, qc), d.msg.id);
            note_hostile(&sh, &(qn.clone(), qt, qc), &b[..b.len().min(65535)]);
            let mut f = (b.len().min(65535) as u16).to_be_bytes().to_vec();
            f.extend_from_slice(&b[..b.len().min(65535)]);
            if s.write_all(&f).await.is_err() {
                return;
            }
            continue;
        }
        match mode {
            UpTcp::Reset => {
                s.reset();
                return;
            }
            UpTcp::Close => return,
            UpTcp::Stall => continue,
            _ => (),
        }
        if let UpTcp::Slow { delay_ms } = mode {
            tokio::time::sleep(Duration::from_millis(delay_ms)).await;
        } else {
            tokio::time::sleep(Duration::from_millis(3)).await;
        }
        let serial = {
            let mut g = sh.lock().unwrap();
            g.next_serial += 1;
            g.next_serial
        };
        let msg = build_answer(&spec.ans, &(qn, qt, qc), serial, d.msg.id);
        let bytes = encode(&msg, spec.ans.compress);
        if bytes.len() <= 65535 {
            own_dns_roundtrip(&sh, &bytes, qi, "upstream reply over TCP");
            note_if_hostile_key(&plan, &sh, qi, &bytes);
        }
        if bytes.len() > 65535 {
            /* cannot be sent over DNS at all: answer SERVFAIL like a real server */
            let stub = Msg { id: d.msg.id, flags: F_QR | F_RD | F_RA | 2, question: msg.question.clone(), ..Default::default() };
            {
                let mut g = sh.lock().unwrap();
                let now = k.now_ns();
                g.replies.push(UpReply { serial, qidx: qi, upstream: ui, tcp: true, msg: stub.clone(), handed_ns: now, handed_hi_ns: now + 25_000_000, as_sent_is_msg: true });
            }
            let b = encode(&stub, false);
            let mut f = (b.len() as u16).to_be_bytes().to_vec();
            f.extend(b);
            let _ = s.write_all(&f).await;
            continue;
        }
        let mut frame = (bytes.len() as u16).to_be_bytes().to_vec();
        frame.extend_from_slice(&bytes);
        if mode == UpTcp::UnknownIdFirst {
            let mut other = msg.clone();
            other.id = other.id.wrapping_add(0x1111);
            let ob = encode(&other, false);
            let mut of = (ob.len() as u16).to_be_bytes().to_vec();
            of.extend(ob);
            let _ = s.write_all(&of).await;
        }
        if let UpTcp::GlueNext { keep_permille, reset } = mode {
            /* wait for a second query on this connection; answer the first in full and the
             * second only in part, in one write, then hang up */
            if let Some(buf2) = next_frame(&mut s, &mut inbuf, Some(Duration::from_millis(40))).await {
                let now_ms = Instant::now().saturating_duration_since(t0).as_millis() as u64;
                let second = decode(&buf2).ok().and_then(|d2| {
                    let (qn2, qt2, qc2) = d2.msg.question.first().cloned()?;
                    let qi2 = spec_for(&plan, &qn2, qt2, qc2, now_ms)?;
                    Some((d2.msg.id, qn2, qt2, qc2, qi2))
                });
                if let Some((id2, qn2, qt2, qc2, qi2)) = second {
                    let handed = k.now_ns();
                    let f2 = {
                        let mut g = sh.lock().unwrap();
                        g.contact.entry(qn2.lower().to_text()).or_default().insert(ui);
                        g.seen[qi2].push((ui, handed, true));
                        g.next_serial += 1;
                        let serial2 = g.next_serial;
                        let msg2 = build_answer(&plan.queries[qi2].ans, &(qn2, qt2, qc2), serial2, id2);
                        let b2 = encode(&msg2, plan.queries[qi2].ans.compress);
                        let mut f2 = (b2.len().min(65535) as u16).to_be_bytes().to_vec();
                        f2.extend_from_slice(&b2[..b2.len().min(65535)]);
                        g.replies.push(UpReply { serial, qidx: qi, upstream: ui, tcp: true, msg: msg.clone(), handed_ns: handed, handed_hi_ns: handed + 25_000_000, as_sent_is_msg: true });
                        g.handed_at[qi].push(handed);
                        g.glued += 1;
                        f2
                    };
                    let keep = ((f2.len() as u64 * keep_permille as u64 / 1000) as usize).clamp(1, f2.len() - 1);
                    let mut both = frame.clone();
                    both.extend_from_slice(&f2[..keep]);
                    let _ = s.write_all(&both).await;
                    if reset {
                        tokio::time::sleep(Duration::from_millis(30)).await;
                        s.reset();
                    }
                    return;
                }
                /* not a query of the plan: answer the first one as usual */
            }
        }
        let handed = k.now_ns();
        let r = if mode == UpTcp::OneByte && frame.len() < 3000 {
            let mut ok = Ok(());
            for b in frame.chunks(1) {
                ok = s.write_all(b).await;
                tokio::time::sleep(Duration::from_micros(300)).await;
                if ok.is_err() {
                    break;
                }
            }
            ok
        } else {
            s.write_all(&frame).await
        };
        {
            /* erbium has the whole reply somewhere between the first octet being written
             * and the last one being delivered (one link latency after the last write) */
            let mut g = sh.lock().unwrap();
            let hi = k.now_ns() + 25_000_000;
            g.replies.push(UpReply { serial, qidx: qi, upstream: ui, tcp: true, msg: msg.clone(), handed_ns: handed, handed_hi_ns: hi, as_sent_is_msg: true });
            g.handed_at[qi].push(handed);
        }
        if r.is_err() {
            return;
        }
        if mode == UpTcp::Twice {
            let _ = s.write_all(&frame).await;
        }
    }
}

async fn client_tcp(k: Arc<Kernel>, plan: Arc<PlanB>, sh: Sh, qi: usize, bytes: Vec<u8>) {
    let q = &plan.queries[qi];
    let from = Addr::Inet(SocketAddr::new(q.src_ip, q.src_port));
    let mut s = match k.actor_connect(from, Addr::Inet(q.dst)) {
        Ok(s) => s,
        Err(e) => {
            sh.lock().unwrap().tcp_done[qi] = Some(format!("connect refused (errno {})", e));
            return;
        }
    };
    let mut frame = q.tcp_prefix.unwrap_or(bytes.len() as u16).to_be_bytes().to_vec();
    frame.extend_from_slice(&bytes);
    if q.tcp_prefix.is_some() {
        /* hostile framing: write, wait a little, hang up */
        let _ = s.write_all(&frame).await;
        tokio::time::sleep(Duration::from_millis(300)).await;
        s.shutdown_write();
        tokio::time::sleep(Duration::from_millis(300)).await;
        sh.lock().unwrap().tcp_done[qi] = Some("hostile framing sent".into());
        return;
    }
    let mut off = 0;
    for n in &q.tcp_split {
        let end = (off + n).min(frame.len());
        if end > off {
            let _ = s.write_all(&frame[off..end]).await;
            tokio::time::sleep(Duration::from_millis(2)).await;
            off = end;
        }
    }
    if off < frame.len() {
        let _ = s.write_all(&frame[off..]).await;
    }
    sh.lock().unwrap().arrived_hi[qi] = k.now_ns() + plan.lat_max_us * 1000 + 2_000_000;
    /* read whole frames until the server closes or the budget runs out */
    let deadline = Instant::now() + Duration::from_secs(900);
    loop {
        let mut lb = [0u8; 2];
        let r = tokio::time::timeout_at(deadline, s.read_exact(&mut lb)).await;
        match r {
            Err(_) => {
                sh.lock().unwrap().tcp_done[qi] = Some("open".into());
                return;
            }
            Ok(Err(e)) => {
                sh.lock().unwrap().tcp_done[qi] = Some(if e == libc::ECONNABORTED { "eof".into() } else { format!("errno {}", e) });
                return;
            }
            Ok(Ok(())) => (),
        }
        let l = u16::from_be_bytes(lb) as usize;
        let mut buf = vec![0u8; l];
        match tokio::time::timeout_at(deadline, s.read_exact(&mut buf)).await {
            Ok(Ok(())) => {
                let at = k.now_ns();
                sh.lock().unwrap().tcp_frames[qi].push((at, buf));
                /* a client that has its answer closes */
                s.shutdown_write();
            }
            _ => {
                sh.lock().unwrap().tcp_done[qi] = Some(format!("frame of {} octets announced but not delivered", l));
                return;
            }
        }
    }
}

/// One client connection carrying several queries (RFC 7766).
async fn client_tcp_group(k: Arc<Kernel>, plan: Arc<PlanB>, sh: Sh, members: Vec<(usize, Vec<u8>)>, mode: u8) {
    let q0 = &plan.queries[members[0].0];
    let from = Addr::Inet(SocketAddr::new(q0.src_ip, q0.src_port));
    let mut s = match k.actor_connect(from, Addr::Inet(q0.dst)) {
        Ok(s) => s,
        Err(e) => {
            let mut g = sh.lock().unwrap();
            for (qi, _) in &members {
                g.tcp_done[*qi] = Some(format!("connect refused (errno {})", e));
            }
            return;
        }
    };
    let frame = |b: &Vec<u8>| {
        let mut f = (b.len() as u16).to_be_bytes().to_vec();
        f.extend_from_slice(b);
        f
    };
    let finish = |sh: &Sh, state: String| {
        let mut g = sh.lock().unwrap();
        for (qi, _) in &members {
            g.tcp_done[*qi] = Some(state.clone());
        }
    };
    let mut next = 0usize;
    if mode == 0 {
        let mut all = vec![];
        for (_, b) in &members {
            all.extend(frame(b));
        }
        let now = k.now_ns();
        {
            let mut g = sh.lock().unwrap();
            for (qi, _) in &members {
                g.sent_override.insert(*qi, now);
                g.arrived_hi[*qi] = now + plan.lat_max_us * 1000 + 2_000_000;
            }
        }
        let _ = s.write_all(&all).await;
        next = members.len();
    } else {
        let now = k.now_ns();
        {
            let mut g = sh.lock().unwrap();
            g.sent_override.insert(members[0].0, now);
            g.arrived_hi[members[0].0] = now + plan.lat_max_us * 1000 + 2_000_000;
        }
        let _ = s.write_all(&frame(&members[0].1)).await;
        next = 1;
    }
    let deadline = Instant::now() + Duration::from_secs(900);
    let mut got = 0usize;
    loop {
        let mut lb = [0u8; 2];
        match tokio::time::timeout_at(deadline, s.read_exact(&mut lb)).await {
            Err(_) => return finish(&sh, "open".into()),
            Ok(Err(e)) => return finish(&sh, if e == libc::ECONNABORTED { "eof".into() } else { format!("errno {}", e) }),
            Ok(Ok(())) => (),
        }
        let l = u16::from_be_bytes(lb) as usize;
        let mut buf = vec![0u8; l];
        match tokio::time::timeout_at(deadline, s.read_exact(&mut buf)).await {
            Ok(Ok(())) => {
                let at = k.now_ns();
                let id = if buf.len() >= 2 { u16::from_be_bytes([buf[0], buf[1]]) } else { 0 };
                let who = members.iter().map(|(qi, _)| *qi).find(|qi| plan.queries[*qi].id == id).unwrap_or(members[0].0);
                sh.lock().unwrap().tcp_frames[who].push((at, buf));
                got += 1;
                if mode == 1 && next < members.len() {
                    tokio::time::sleep(Duration::from_millis(5)).await;
                    let now = k.now_ns();
                    {
                        let mut g = sh.lock().unwrap();
                        g.sent_override.insert(members[next].0, now);
                        g.arrived_hi[members[next].0] = now + plan.lat_max_us * 1000 + 2_000_000;
                    }
                    if let Err(e) = s.write_all(&frame(&members[next].1)).await {
                        return finish(&sh, format!("errno {} writing the next query", e));
                    }
                    next += 1;
                }
                if got >= members.len() {
                    /* a client that has all its answers closes */
                    s.shutdown_write();
                }
            }
            _ => return finish(&sh, format!("frame of {} octets announced but not delivered", l)),
        }
    }
}

pub struct ExecB {
    pub trace: bool,
}

fn rr_serial(r: &Rr) -> Option<u32> {
    fn from_name(n: &Name) -> Option<u32> {
        let l = n.0.first()?;
        let s = std::str::from_utf8(l).ok()?;
        s.strip_prefix('s')?.parse().ok()
    }
    match &r.rdata {
        RData::Name(n) | RData::PrefName(_, n) => from_name(n),
        RData::Soa { serial, .. } => Some(*serial),
        RData::Rp(a, _) => from_name(a),
        RData::Naptr { services, .. } if services.len() == 4 => Some(u32::from_be_bytes([services[0], services[1], services[2], services[3]])),
        RData::Raw(d) => match r.rtype {
            T_AAAA if d.len() == 16 => Some(u32::from_be_bytes([d[12], d[13], d[14], d[15]])),
            T_TXT if d.len() >= 5 => Some(u32::from_be_bytes([d[1], d[2], d[3], d[4]])),
            _ if d.len() >= 4 => Some(u32::from_be_bytes([d[0], d[1], d[2], d[3]])),
            _ => None,
        },
        _ => None,
    }
}

fn same_rr_but_ttl(a: &Rr, b: &Rr) -> bool {
    a.name == b.name && a.rtype == b.rtype && a.class == b.class && a.rdata == b.rdata
}

pub async fn run_async(plan: Arc<PlanB>, opts: &ExecB) -> RunResult {
    let mut res = RunResult { seed: plan.seed, world: "B".into(), shape: plan.shape.clone(), ..Default::default() };
    let ifaces = ifaces_of(&plan);
    let knobs = Knobs {
        yield_p: plan.yield_p,
        spurious_p: plan.spurious_p,
        eintr_p: plan.eintr_p,
        lat_min_us: 100,
        lat_max_us: plan.lat_max_us,
        out_loss_p: plan.out_loss_p,
        out_dup_p: plan.out_dup_p,
        out_delay_p: plan.out_delay_p,
        out_delay_max_ms: 1500,
        sndbuf: plan.sndbuf,
        eph_ports: plan.eph_ports,
        send_err_p: plan.send_err_p,
        max_seg: plan.max_seg,
        faults_until_ns: plan.queries.iter().filter(|q| !q.after_faults).map(|q| q.at_ms).max().map(|t| (t + 600_000) * 1_000_000).filter(|_| plan.queries.iter().any(|q| q.after_faults)).unwrap_or(u64::MAX),
    };
    let kernel = Kernel::new(plan.seed, ifaces.clone(), Some(UP_IF), knobs, opts.trace);
    erbium_net::sim::install(Some(std::rc::Rc::new(KHandle(kernel.clone()))));
    crate::interpose::set_qid_high(plan.qid_high);
    crate::interpose::arm(plan.seed, plan.wall_base, plan.qid_bits);
    let t0 = Instant::now();
    let nq = plan.queries.len();
    let sh: Sh = Arc::new(Mutex::new(Shared { seen: vec![vec![]; nq], tcp_frames: vec![vec![]; nq], tcp_done: vec![None; nq], handed_at: vec![vec![]; nq], delivered_udp: vec![vec![]; nq], arrived_hi: vec![0; nq], ..Default::default() }));

    /* upstream actors */
    for (ui, ip) in plan.upstreams.iter().enumerate() {
        let rx = kernel.actor_udp_bind(*ip, 53);
        tokio::spawn(upstream_udp(kernel.clone(), plan.clone(), sh.clone(), ui, rx, t0));
        let mode = match plan.upstream_tcp[ui].as_str() {
            "refuse" => ListenMode::Refuse,
            "blackhole" => ListenMode::Blackhole,
            _ => ListenMode::Accept,
        };
        let mut lrx = kernel.actor_tcp_listen(SocketAddr::new(*ip, 53), mode);
        let (k2, p2, s2) = (kernel.clone(), plan.clone(), sh.clone());
        tokio::spawn(async move {
            while let Some(stream) = lrx.recv().await {
                tokio::spawn(upstream_tcp_conn(k2.clone(), p2.clone(), s2.clone(), ui, stream, t0));
            }
        });
    }

    /* boot erbium's DNS service exactly as main.rs does */
    let netinfo = crate::wa_exec::netinfo_of(&ifaces);
    let conf = match erbium::config::load_config_from_string_verif(&plan.yaml()) {
        Ok(c) => c,
        Err(e) => {
            res.harness_error = Some(format!("config rejected: {}\n{}", e, plan.yaml()));
            erbium_net::sim::install(None);
            return res;
        }
    };
    let dns = match erbium::dns::DnsService::new(conf, &netinfo).await {
        Ok(d) => d,
        Err(e) => {
            res.harness_error = Some(format!("DnsService::new failed: {}\n{}", e, plan.yaml()));
            erbium_net::sim::install(None);
            return res;
        }
    };
    let svc = tokio::spawn(async move {
        let _ = dns.run().await;
    });
    tokio::time::sleep(Duration::from_millis(1)).await;

    /* clients */
    let mut cookies: HashMap<usize, Vec<u8>> = HashMap::new();
    let mut sent_at_ns: Vec<u64> = vec![0; nq];
    let mut jumps = plan.clock_jumps.clone();
    jumps.sort();
    let mut ji = 0;
    for qi in 0..nq {
        let q = &plan.queries[qi];
        while ji < jumps.len() && jumps[ji].0 <= q.at_ms {
            tokio::time::sleep_until(t0 + Duration::from_millis(jumps[ji].0)).await;
            crate::interpose::add_skew_secs(jumps[ji].1);
            *res.faults.entry("clock_jump".into()).or_insert(0) += 1;
            ji += 1;
        }
        tokio::time::sleep_until(t0 + Duration::from_millis(q.at_ms)).await;
        if let Some(off_ms) = q.tcp_idle_off {
            /* aim at the instant the newest TCP reply from this query's upstream is 120 s old */
            let up = match plan.route_for(&q.qname) {
                Some(RouteKind::Forward(u)) => Some(*u),
                _ => None,
            };
            let target = {
                let g = sh.lock().unwrap();
                g.replies.iter().filter(|r| r.tcp && Some(r.upstream) == up).map(|r| r.handed_hi_ns).max().map(|t| t as i64 + 120_000_000_000 + off_ms * 1_000_000)
            };
            if let Some(t) = target {
                let now = kernel.now_ns() as i64;
                if t > now && t - now < 400_000_000_000 {
                    tokio::time::sleep(Duration::from_nanos((t - now) as u64)).await;
                    res.probe("C07.query_aimed_at_upstream_tcp_idle_timers");
                }
            }
        }
        if let Some(off_ms) = q.ttl_boundary {
            /* wait for the instant the cached entry for this key runs out (+/- offset) */
            let target = {
                let g = sh.lock().unwrap();
                g.replies.iter().filter(|r| key_of(&plan.queries[r.qidx]) == key_of(q)).last().map(|rep| {
                    let min_ttl = rep.msg.answer.iter().chain(rep.msg.authority.iter()).chain(rep.msg.additional.iter()).filter(|r| r.rtype != T_OPT).map(|r| r.ttl).min().unwrap_or(0);
                    rep.handed_hi_ns as i64 + min_ttl as i64 * 1_000_000_000 + off_ms * 1_000_000
                })
            };
            if let Some(t) = target {
                let now = kernel.now_ns() as i64;
                if t > now && t - now < 400_000_000_000 {
                    tokio::time::sleep(Duration::from_nanos((t - now) as u64)).await;
                    res.probe("C06.query_aimed_at_ttl_boundary");
                }
            }
        }
        /* learn server cookies from what has come back so far */
        if let Some(EdnsSpec { cookie: CookieSpec::FromQuery(src), .. }) = &q.edns {
            if !cookies.contains_key(src) {
                let sq = &plan.queries[*src];
                let outs = kernel.with(|k| k.out.clone());
                for o in outs.iter() {
                    if let OutKind::Udp { dst, data, .. } = &o.kind {
                        if dst.ip() == sq.src_ip && dst.port() == sq.src_port {
                            if let Ok(d) = decode(data) {
                                for (c, v) in d.msg.edns_options() {
                                    if c == 10 && v.len() > 8 {
                                        cookies.insert(*src, v[8..].to_vec());
                                    }
                                }
                            }
                        }
                    }
                }
            }
        }
        let bytes = client_query_bytes(&plan, qi, &cookies);
        own_dns_roundtrip(&sh, &bytes, qi, "client query");
        sent_at_ns[qi] = kernel.now_ns();
        if let Some((gid, mode)) = q.conn {
            let members: Vec<usize> = (0..nq).filter(|i| matches!(plan.queries[*i].conn, Some((g, _)) if g == gid)).collect();
            if members[0] == qi {
                let with_bytes: Vec<(usize, Vec<u8>)> = members.iter().map(|i| (*i, client_query_bytes(&plan, *i, &cookies))).collect();
                res.probe("C07.several_queries_on_one_client_connection");
                tokio::spawn(client_tcp_group(kernel.clone(), plan.clone(), sh.clone(), with_bytes, mode));
            }
        } else if q.tcp {
            tokio::spawn(client_tcp(kernel.clone(), plan.clone(), sh.clone(), qi, bytes));
        } else {
            let src = SocketAddr::new(q.src_ip, q.src_port);
            kernel.inject_udp(q.dst, src, LAN_IF, &bytes);
            if q.dup_in {
                kernel.inject_udp(q.dst, src, LAN_IF, &bytes);
                *res.faults.entry("client_datagram_duplicated".into()).or_insert(0) += 1;
            }
        }
    }
    /* liveness budget: everything pending must be settled 600 simulated seconds after the last event */
    tokio::time::sleep(Duration::from_secs(1000)).await;
    let end_ns = kernel.now_ns();

    for (loc, msg) in crate::common::take_panics() {
        res.violate("C05", &format!("C05.panic@{}", loc), format!("panic in a DNS task: {}", msg), 0);
        if loc.contains("dns/dnspkt.rs") || loc.contains("dns/parse.rs") {
            /* the codec itself gave up on a message it had decoded */
            res.violate("C14", &format!("C14.codec_panic@{}", loc), format!("the DNS codec panicked while re-encoding a relayed message: {}", msg), 0);
        }
    }
    svc.abort();
    for (qi, t) in sh.lock().unwrap().sent_override.iter() {
        sent_at_ns[*qi] = *t;
    }
    evaluate(&plan, &kernel, &sh, &sent_at_ns, end_ns, &mut res);
    erbium_net::sim::install(None);
    kernel.with(|k| {
        res.events = k.log.n;
        res.event_hash = format!("{:016x}", k.log.hash);
        for (n, v) in &k.stats {
            if n.starts_with("fault.") {
                *res.faults.entry(n.clone()).or_insert(0) += v;
            } else {
                *res.probes.entry(n.clone()).or_insert(0) += v;
            }
        }
        res.trace = k.log.trace.take();
    });
    res.sim_ms = Instant::now().saturating_duration_since(t0).as_millis() as u64;
    res.steps = nq;
    res
}

#[derive(Clone, Debug, PartialEq)]
enum Expect {
    Refused,
    NxDomain,
    ServFail,
    Forward(usize),
}

fn evaluate(plan: &PlanB, kernel: &Arc<Kernel>, sh: &Sh, sent_at_ns: &[u64], _end_ns: u64, res: &mut RunResult) {
    let outs = kernel.with(|k| k.out.clone());
    let g = sh.lock().unwrap();
    for (kind, detail, qi) in &g.codec_findings {
        res.violate("C14", kind, detail.clone(), *qi);
    }
    if g.codec_checked[0] > 0 {
        res.probe("C14.flowing_message_refused_by_decoder");
    }
    if g.codec_checked[1] > 0 {
        res.probe("C14.flowing_message_survives_encode_decode");
    }
    for e in &g.bad_forwarded {
        res.violate("C04", "C04.malformed_query_sent_upstream", e.clone(), 0);
    }
    let rules = plan.acl_rules();
    let mut nontrivial = 0u64;
    /* a key asked more than once in the run: cache questions arise */
    let mut key_count: HashMap<(String, u16, u16), usize> = HashMap::new();
    for q in &plan.queries {
        *key_count.entry(key_of(q)).or_insert(0) += 1;
    }
    /* fault kinds that actually fired: upstream behaviours on exchanges an upstream took part in */
    for (qi, q) in plan.queries.iter().enumerate() {
        if g.seen[qi].is_empty() {
            continue;
        }
        let name = match &q.up {
            UpBehaviour::Normal { delay_ms } if *delay_ms <= 250 => None,
            UpBehaviour::Normal { .. } => Some("upstream.slow"),
            UpBehaviour::Silent => Some("upstream.silent"),
            UpBehaviour::AnswerFrom { .. } => Some("upstream.first_transmissions_lost"),
            UpBehaviour::Pattern { .. } => Some("upstream.drop_pattern_over_transmissions"),
            UpBehaviour::GarbageFirst { .. } => Some("upstream.garbage_to_the_first_of_two_overlapping_exchanges"),
            UpBehaviour::Dup { .. } => Some("upstream.duplicate_reply"),
            UpBehaviour::WrongId => Some("upstream.wrong_id_reply"),
            UpBehaviour::Tc => Some("upstream.truncated_udp_reply"),
            UpBehaviour::TcPartial { .. } => Some("upstream.truncated_udp_reply_with_records_while_tcp_fails"),
            UpBehaviour::Garbage => Some("upstream.garbage_reply"),
            UpBehaviour::Unreachable => Some("upstream.icmp_unreachable"),
            UpBehaviour::Hostile { .. } => Some("upstream.hostile_reply"),
        };
        if let Some(n) = name {
            *res.faults.entry(n.into()).or_insert(0) += 1;
        }
        if g.seen[qi].iter().any(|s| s.2) {
            let t = match &q.up_tcp {
                UpTcp::Normal => None,
                UpTcp::OneByte => Some("upstream_tcp.one_octet_segments"),
                UpTcp::Reset => Some("upstream_tcp.reset"),
                UpTcp::Close => Some("upstream_tcp.close_without_answer"),
                UpTcp::Stall => Some("upstream_tcp.stall"),
                UpTcp::UnknownIdFirst => Some("upstream_tcp.unknown_id_reply"),
                UpTcp::Twice => Some("upstream_tcp.duplicate_reply"),
                UpTcp::Slow { .. } => Some("upstream_tcp.slow"),
                UpTcp::GlueNext { .. } => None, /* counted when it happens: shared.glued */
            };
            if let Some(n) = t {
                *res.faults.entry(n.into()).or_insert(0) += 1;
            }
        }
    }
    if g.glued > 0 {
        *res.faults.entry("upstream_tcp.cut_inside_second_pipelined_reply".into()).or_insert(0) += g.glued as u64;
        res.probe("C07.upstream_connection_died_inside_the_second_of_two_pipelined_replies");
    }
    for m in &plan.upstream_tcp {
        if m != "accept" {
            *res.faults.entry(format!("upstream_tcp.{}", m)).or_insert(0) += 1;
        }
    }
    if plan.qid_bits < 16 {
        *res.faults.entry("low_entropy_query_ids".into()).or_insert(0) += 1;
    }
    if plan.eph_ports > 0 {
        *res.faults.entry("small_ephemeral_port_range".into()).or_insert(0) += 1;
    }
    // ---- C14: a hostile upstream reply that erbium's decoder accepted as m and that erbium relayed
    // (at once, or later from its cache) must reach the client as bytes that decode to the same
    // records; judged on every well-formed query whose question drew a hostile reply
    for (qi, q) in plan.queries.iter().enumerate() {
        use erbium::dns::dnspkt::DNSPkt;
        use erbium::dns::parse::PktParser;
        let Some(sent) = g.hostile_sent.get(&key_of(q)) else { continue };
        if q.raw.is_some() {
            continue;
        }
        let mut got: Vec<&Vec<u8>> = vec![];
        if q.tcp {
            got.extend(g.tcp_frames[qi].iter().map(|(_, f)| f));
        } else {
            for o in &outs {
                if let OutKind::Udp { dst, data, .. } = &o.kind {
                    if dst.ip() == q.src_ip && dst.port() == q.src_port && !o.injected && o.errno.is_none() {
                        got.push(data);
                    }
                }
            }
        }
        let accepted: Vec<DNSPkt> = sent.iter().filter_map(|b| PktParser::new(b).get_dns().ok()).collect();
        for bytes in got {
            let Ok(m2) = PktParser::new(bytes).get_dns() else { continue };
            let empty = m2.answer.is_empty() && m2.nameserver.is_empty() && m2.additional.is_empty();
            if m2.tc || empty || accepted.is_empty() {
                continue;
            }
            res.probe("C14.hostile_reply_accepted_and_relayed");
            let same = accepted.iter().any(|m1| own_records_equal(&m1.answer, &m2.answer) && own_records_equal(&m1.nameserver, &m2.nameserver) && own_records_equal(&m1.additional, &m2.additional));
            if !same {
                let show = |m: &DNSPkt| format!("answer [{}] authority [{}] additional [{}]", m.answer.iter().map(|r| r.to_string()).collect::<Vec<_>>().join(" | "), m.nameserver.iter().map(|r| r.to_string()).collect::<Vec<_>>().join(" | "), m.additional.iter().map(|r| r.to_string()).collect::<Vec<_>>().join(" | "));
                let last = &sent[sent.len() - 1];
                res.violate("C14", "C14.accepted_hostile_reply_changed_by_reencoding", format!("response to {}: erbium's decoder reads erbium's output as {} but none of the {} upstream replies for this question reads like that; the last one reads {} -- its bytes {}", q.qname.to_text(), show(&m2), accepted.len(), show(&accepted[accepted.len() - 1]), hex(&last[..last.len().min(300)])), qi);
            }
        }
    }
    for (qi, q) in plan.queries.iter().enumerate() {
        if q.raw.is_some() || q.flood {
            continue;
        }
        /* ---- what came back */
        let mut responses: Vec<(u64, Vec<u8>, Option<i32>, Option<SocketAddr>)> = vec![];
        let mut injected_send_errors = 0usize;
        if q.tcp {
            for (at, f) in &g.tcp_frames[qi] {
                responses.push((*at, f.clone(), None, None));
            }
        } else {
            for o in &outs {
                if let OutKind::Udp { src, dst, data } = &o.kind {
                    if dst.ip() == q.src_ip && dst.port() == q.src_port {
                        if o.injected {
                            /* a failed system call: for the client the same as a lost datagram */
                            injected_send_errors += 1;
                            continue;
                        }
                        responses.push((o.at_ns, data.clone(), o.errno, Some(*src)));
                    }
                }
            }
        }
        let deliveries = if q.dup_in { 2 } else { 1 };

        /* ---- what the documentation says must happen */
        let granted = acl_model::granted_opt(&rules, &ClientAddr::Ip(q.src_ip), "dns-recursion");
        let Some(granted) = granted else {
            res.probe("C08.outcome_not_settled_by_manual");
            continue;
        };
        let expect = if !granted {
            Expect::Refused
        } else {
            match plan.route_for(&q.qname) {
                None => Expect::ServFail,
                Some(RouteKind::Nx) => Expect::NxDomain,
                Some(RouteKind::ForwardNowhere) => {
                    /* undocumented outcome: only liveness is judged */
                    res.probe("C05.query_under_forward_route_without_servers");
                    {
                        /* what the route's answer is the manual does not say, but it is still
                         * the route with the longest matching suffix: the name belongs to no
                         * other route's upstream and to no forge-nxdomain route */
                        let lname = q.qname.lower().to_text();
                        let unique = plan.queries.iter().filter(|o| o.qname.lower().to_text() == lname).count() == 1;
                        let contacted: BTreeSet<usize> = g.contact.get(&lname).cloned().unwrap_or_default();
                        if unique && !contacted.is_empty() {
                            res.violate("C15", "C15.name_under_route_without_servers_sent_upstream", format!("{} belongs to a forward route that lists no servers but reached upstreams {:?}; routes {:?}", q.qname.to_text(), contacted, plan.routes), qi);
                        }
                        for (_, bytes, _, _) in &responses {
                            if let Ok(d) = decode(bytes) {
                                if d.msg.rcode() == 3 {
                                    res.violate("C15", "C15.wrong_outcome.nxdomain_under_route_without_servers", format!("{} belongs to a forward route that lists no servers but got NXDOMAIN; routes {:?}", q.qname.to_text(), plan.routes), qi);
                                }
                            }
                        }
                    }
                    if q.liveness_probe && !g_responded(&g, &outs, q, qi) {
                        res.violate("C05", if q.tcp { "C05.dns_service_stopped_answering.tcp" } else { "C05.dns_service_stopped_answering.udp" }, format!("well-formed query {} under a forward route that lists no servers got no response at all", q.qname.to_text()), qi);
                    }
                    continue;
                }
                Some(RouteKind::Forward(u)) => {
                    if q.rd {
                        Expect::Forward(*u)
                    } else {
                        Expect::Refused
                    }
                }
            }
        };
        let lname = q.qname.lower().to_text();
        let unique_name = plan.queries.iter().filter(|o| o.qname.lower().to_text() == lname).count() == 1;
        let contacted: BTreeSet<usize> = g.contact.get(&lname).cloned().unwrap_or_default();

        // ---- C08 (DNS half) and C15: who was contacted
        if unique_name {
            match &expect {
                Expect::Forward(u) => {
                    if !contacted.is_subset(&BTreeSet::from([*u])) {
                        res.violate("C15", "C15.query_sent_to_wrong_upstream", format!("{} must go to upstream {} ({}) only, but upstreams {:?} saw it; routes: {:?}", q.qname.to_text(), u, plan.upstreams[*u], contacted, plan.routes), qi);
                    }
                    res.probe("C15.forward_route");
                }
                other => {
                    if !contacted.is_empty() {
                        if !granted {
                            res.violate("C08", "C08.refused_query_forwarded_upstream", format!("client {} has no dns-recursion permission but its query for {} reached upstreams {:?}", q.src_ip, q.qname.to_text(), contacted), qi);
                        } else {
                            res.violate("C15", &format!("C15.{}_name_sent_upstream", match other { Expect::NxDomain => "blocked", Expect::ServFail => "unrouted", _ => "no_recursion" }), format!("{} (expected {:?}) reached upstreams {:?}; routes {:?}", q.qname.to_text(), other, contacted, plan.routes), qi);
                        }
                    }
                }
            }
        }
        if !granted {
            res.probe("C08.dns_query_that_must_be_refused");
        }

        // ---- C07: exactly one response, from where the query went
        /* REFUSED is rate limited over UDP (C16), whether generated here or relayed */
        let may_be_silent = !q.tcp && (expect == Expect::Refused || (matches!(expect, Expect::Forward(_)) && plan.queries.iter().any(|o| key_of(o) == key_of(q) && o.ans.rcode & 0xf == 5)));
        if q.liveness_probe {
            res.probe("C05.liveness_probe_after_hostile_input");
            /* (a probe whose proper answer is a REFUSED over UDP - RD clear under a forward
             * route - may be met with silence by the REFUSED limiter, whose buckets are shared
             * between sources: that is C16's business, not a dead service) */
            if responses.is_empty() && !may_be_silent {
                res.violate("C05", if q.tcp { "C05.dns_service_stopped_answering.tcp" } else { "C05.dns_service_stopped_answering.udp" }, format!("well-formed query {} ({} from {}) sent {} got no response", q.qname.to_text(), if q.tcp { "TCP" } else { "UDP" }, q.src_ip, if plan.shape == "cookie" { "after a day and a half of uptime" } else { "1.5 s after a hostile input" }), qi);
            }
        }
        if responses.is_empty() && injected_send_errors > 0 {
            res.probe("C07.response_lost_to_a_failed_sendmsg");
            continue;
        }
        if responses.is_empty() {
            /* erbium's per-upstream TCP task connects and times out for one query at a time, so
             * against a black-holed or stalling upstream the k-th queued query waits k kernel
             * time-outs; whether that is still "bounded" the statement does not settle, so
             * liveness is judged only when at most three TCP-path queries can queue up */
            let tcp_path = |o: &QuerySpec| o.tcp || matches!(o.up, UpBehaviour::WrongId | UpBehaviour::Tc | UpBehaviour::TcPartial { .. });
            let slow_tcp = plan.upstream_tcp.iter().any(|m| m == "blackhole") || plan.queries.iter().any(|o| tcp_path(o) && o.up_tcp == UpTcp::Stall);
            let liveness_judged = !slow_tcp || plan.queries.iter().filter(|o| tcp_path(o)).count() <= 3;
            if !liveness_judged {
                res.probe("C07.liveness_not_judged_queue_behind_dead_tcp_upstream");
            }
            if !may_be_silent && liveness_judged {
                let what = match (&expect, q.tcp) {
                    (_, true) if q.conn.is_some() && plan.queries[..qi].iter().any(|o| o.conn.map(|c| c.0) == q.conn.map(|c| c.0)) => {
                        format!("C07.no_response.tcp.later_query_on_same_connection.{}", if q.conn.map(|c| c.1) == Some(0) { "pipelined" } else { "sequential" })
                    }
                    (_, true) => format!("C07.no_response.tcp.{}", g.tcp_done[qi].clone().unwrap_or("pending".into()).split(' ').next().unwrap_or("")),
                    (Expect::Forward(_), false) => "C07.no_response.udp.forwarded".to_string(),
                    (_, false) => "C07.no_response.udp.local".to_string(),
                };
                res.violate(
                    "C07",
                    &what,
                    format!("query {} ({} {} from {}:{} to {}, upstream behaviour {:?}/{:?}) got no response within 1000 simulated seconds; tcp state {:?}; listeners {:?}", qi, if q.tcp { "TCP" } else { "UDP" }, q.qname.to_text(), q.src_ip, q.src_port, q.dst, q.up, q.up_tcp, g.tcp_done[qi], plan.listeners),
                    qi,
                );
            }
            continue;
        }
        nontrivial += 1;
        if responses.len() > deliveries {
            res.violate("C07", if q.tcp { "C07.duplicate_response.tcp" } else { "C07.duplicate_response.udp" }, format!("query {} for {} was delivered {} time(s) but {} responses were sent (upstream behaviour {:?}/{:?})", qi, q.qname.to_text(), deliveries, responses.len(), q.up, q.up_tcp), qi);
        }
        if responses.len() > 1 {
            res.probe("C07.several_responses_seen");
        }
        for (at_ns, bytes, errno, src) in &responses {
            if let Some(e) = errno {
                res.violate("C07", "C07.response_refused_by_kernel", format!("sending the response to {}:{} from listener {} failed with errno {} (listeners {:?})", q.src_ip, q.src_port, q.dst, e, plan.listeners), qi);
                continue;
            }
            if let Some(s) = src {
                if *s != q.dst {
                    res.violate("C07", "C07.response_from_wrong_address", format!("query went to {} but the response came from {}", q.dst, s), qi);
                }
            }
            if Some(q.dst.ip()) == plan.lan4_alias.map(IpAddr::V4) {
                res.probe("C07.query_to_secondary_local_address");
            }
            if plan.listeners.iter().any(|l| l == "bind-interfaces") {
                res.probe("C07.response_from_per_address_socket_of_bind_addresses_interfaces");
            }
            if q.dst.is_ipv4() && !plan.listeners.iter().any(|l| l == "default") {
                res.probe("C07.response_sent_from_ipv4_only_listener");
            }

            // ---- C14: what erbium encodes, erbium's own decoder reads back
            if let Err(e) = erbium::dns::parse::PktParser::new(bytes).get_dns() {
                if decode(bytes).is_ok() {
                    res.violate("C14", "C14.own_decoder_rejects_own_encoding", format!("response to {} ({} octets) is well-formed but erbium's decoder refuses it: {} -- {}", q.qname.to_text(), bytes.len(), e, hex(&bytes[..bytes.len().min(400)])), qi);
                }
            }
            // ---- C04: well-formed, within the transport limit
            let d = match decode(bytes) {
                Ok(d) => d,
                Err(e) => {
                    if matches!(expect, Expect::Forward(_)) {
                        res.violate("C14", "C14.reencoded_message_does_not_decode", format!("response to {} ({} octets) does not decode: {}", q.qname.to_text(), bytes.len(), e), qi);
                    }
                    res.violate("C04", if q.tcp { "C04.malformed_response.tcp" } else { "C04.malformed_response.udp" }, format!("response to {} ({} octets) does not decode: {} -- {}", q.qname.to_text(), bytes.len(), e, hex(&bytes[..bytes.len().min(120)])), qi);
                    continue;
                }
            };
            let m = &d.msg;
            let adv = q.edns.as_ref().map(|e| e.size as usize).unwrap_or(512).max(512);
            if !q.tcp && bytes.len() > adv {
                res.violate("C04", "C04.udp_response_exceeds_advertised_size", format!("client advertised {:?} (limit {}) but the UDP response has {} octets", q.edns.as_ref().map(|e| e.size), adv, bytes.len()), qi);
            }

            // ---- C03: id, question, QR
            if m.id != q.id || m.flags & F_QR == 0 || m.question.len() != 1 || m.question[0] != (q.qname.clone(), q.qtype, q.qclass) {
                res.violate("C03", "C03.id_or_question_not_echoed", format!("query id {:#x} {} type {} class {}; response id {:#x} flags {:#x} question {:?}", q.id, q.qname.to_text(), q.qtype, q.qclass, m.id, m.flags, m.question), qi);
                continue;
            }
            let rcode = m.rcode();
            let ede: String = m.edns_options().iter().filter(|(c, _)| *c == 15).map(|(_, v)| format!("EDE {} {:?}", if v.len() >= 2 { u16::from_be_bytes([v[0], v[1]]) } else { 0 }, String::from_utf8_lossy(&v[v.len().min(2)..]))).collect::<Vec<_>>().join("; ");
            let recs: Vec<&Rr> = m.answer.iter().chain(m.authority.iter()).chain(m.additional.iter()).filter(|r| r.rtype != T_OPT).collect();

            /* a client the ACLs grant recursion to, refused without its upstream ever being
             * asked (so the REFUSED is erbium's own), where routing says something else */
            if granted && rcode == 5 && recs.is_empty() {
                let own_refusal = match &expect {
                    Expect::NxDomain | Expect::ServFail => true,
                    Expect::Forward(_) => unique_name && contacted.is_empty() && q.ans.rcode & 0xf != 5,
                    Expect::Refused => false,
                };
                if own_refusal {
                    res.violate("C08", "C08.permitted_client_refused.dns", format!("{} is granted dns-recursion by the ACLs in force ({:?}) but {} was REFUSED [{}]", q.src_ip, rules.iter().map(|r| format!("{:?}", r.subnets)).collect::<Vec<_>>(), q.qname.to_text(), ede), qi);
                    continue;
                }
            }
            match &expect {
                Expect::Refused | Expect::NxDomain | Expect::ServFail => {
                    let want = match expect {
                        Expect::Refused => 5,
                        Expect::NxDomain => 3,
                        _ => 2,
                    };
                    if rcode != want {
                        let (prop, kind) = if !granted {
                            ("C08", "C08.client_without_permission_not_refused".to_string())
                        } else {
                            ("C15", format!("C15.wrong_outcome.expected_{:?}", expect).to_lowercase().replace("c15", "C15"))
                        };
                        res.violate(prop, &kind, format!("{} from {}: rcode {} expected {} ({:?}); routes {:?}", q.qname.to_text(), q.src_ip, rcode, want, expect, plan.routes), qi);
                    }
                    if !recs.is_empty() {
                        if !granted {
                            res.violate("C08", "C08.refused_client_answered_from_cache", format!("client {} has no dns-recursion permission but got {} records for {}", q.src_ip, recs.len(), q.qname.to_text()), qi);
                        } else {
                            res.violate("C03", "C03.records_invented", format!("locally generated {:?} response carries {} records", expect, recs.len()), qi);
                        }
                    }
                    match expect {
                        Expect::NxDomain => res.probe("C15.forge_nxdomain_route"),
                        Expect::ServFail => res.probe("C15.no_route"),
                        Expect::Refused if granted => res.probe("C15.no_recursion_desired_on_forward_route"),
                        _ => (),
                    }
                }
                Expect::Forward(_) => {
                    /* attribute the response to one upstream reply */
                    let serials: BTreeSet<u32> = recs.iter().filter_map(|r| rr_serial(r)).collect();
                    let touched = !is_clean(plan, q);
                    if serials.len() > 1 {
                        res.violate("C03", "C03.records_from_different_upstream_replies", format!("response to {} mixes records of upstream replies {:?}", q.qname.to_text(), serials), qi);
                        continue;
                    }
                    let rep: Option<&UpReply> = if let Some(s) = serials.iter().next() {
                        g.replies.iter().find(|r| r.serial == *s)
                    } else if recs.is_empty() {
                        /* nothing to read a serial from: the latest reply to this key handed over
                         * before; unless the response is truncated it must be a record-less one */
                        g.replies
                            .iter()
                            .filter(|r| key_of(&plan.queries[r.qidx]) == key_of(q) && r.handed_ns <= *at_ns)
                            .filter(|r| m.tc() || (r.msg.answer.is_empty() && r.msg.authority.is_empty() && r.msg.non_opt_additional().is_empty() && r.msg.rcode() == rcode))
                            .last()
                    } else {
                        None
                    };
                    let Some(rep) = rep else {
                        if recs.is_empty() {
                            if q.after_faults {
                                res.probe("C07.recovery_probe");
                            }
                            if rcode == 2 && key_count[&key_of(q)] == 1 && only_own_udp_loss(plan, q) && g.delivered_udp[qi].iter().any(|t| *t < *at_ns) {
                                /* nothing but loss of some transmissions of this very exchange, and a
                                 * complete answer reached an open socket before erbium gave up */
                                res.violate(
                                    "C07",
                                    "C07.servfail_although_a_retransmission_was_answered",
                                    format!("{} got SERVFAIL [{}] at {} ns although a complete upstream answer was delivered to an open socket at {:?} ns (behaviour {:?}; transmissions seen {:?})", q.qname.to_text(), ede, at_ns, g.delivered_udp[qi], q.up, g.seen[qi]),
                                    qi,
                                );
                            } else if rcode == 2 && (touched || key_count[&key_of(q)] > 1) {
                                if g.delivered_udp[qi].is_empty() && matches!(q.up, UpBehaviour::Pattern { .. } | UpBehaviour::AnswerFrom { .. } | UpBehaviour::Silent) {
                                    res.probe("C07.servfail_after_every_transmission_was_lost");
                                }
                                res.probe("C07.servfail_after_fault");
                            } else if rcode == 2 && g.replies.iter().any(|r| r.qidx == qi) {
                                res.violate("C03", "C03.upstream_answer_replaced_by_servfail", format!("clean query {} got SERVFAIL [{}] although upstream answered (behaviour {:?}/{:?}; answer spec {:?})", q.qname.to_text(), ede, q.up, q.up_tcp, q.ans), qi);
                                res.violate("C07", if q.after_faults { "C07.no_recovery_after_faults" } else { "C07.clean_query_got_servfail_although_upstream_answered" }, format!("clean query {} ({}) got SERVFAIL [{}] although its upstream answered", q.qname.to_text(), if q.tcp { "TCP" } else { "UDP" }, ede), qi);
                            } else if rcode == 2 {
                                res.violate("C07", if q.after_faults { "C07.no_recovery_after_faults" } else { "C07.servfail_for_clean_query" }, format!("clean query {} ({}) got SERVFAIL [{}]; upstream saw {:?}", q.qname.to_text(), if q.tcp { "TCP" } else { "UDP" }, ede, g.seen[qi]), qi);
                            } else {
                                res.violate("C03", "C03.response_not_attributable", format!("response to {} (rcode {}, no records) matches no upstream reply", q.qname.to_text(), rcode), qi);
                            }
                        } else {
                            res.violate("C03", "C03.records_invented", format!("records in the response to {} carry no serial of any upstream reply: {:?}", q.qname.to_text(), recs.iter().take(3).collect::<Vec<_>>()), qi);
                        }
                        continue;
                    };
                    let rq = &plan.queries[rep.qidx];
                    if key_of(rq) != key_of(q) {
                        res.violate("C07", "C07.answer_to_another_question", format!("query {} for {} type {} was answered with upstream reply #{} to {} type {}", qi, q.qname.to_text(), q.qtype, rep.serial, rq.qname.to_text(), rq.qtype), qi);
                        /* ... which is also not what any upstream said about this question */
                        res.violate("C03", "C03.sections_taken_from_the_reply_to_another_question", format!("query {} for {} type {} class {} carries the records of upstream reply #{}, which answered {} type {} class {}", qi, q.qname.to_text(), q.qtype, q.qclass, rep.serial, rq.qname.to_text(), rq.qtype, rq.qclass), qi);
                        continue;
                    }
                    let from_cache = rep.handed_hi_ns < sent_at_ns[qi];
                    let maybe_cache = rep.handed_ns < sent_at_ns[qi];
                    let um = &rep.msg;
                    // ---- C06
                    let mut age: u32 = 0;
                    let mut age_lo: u32 = 0;
                    /* the query reached erbium between the instant it was sent and (TCP) the
                     * delivery of its last segment */
                    let mut arrive_hi = if q.tcp { g.arrived_hi[qi].max(sent_at_ns[qi]) } else { sent_at_ns[qi] };
                    if q.tcp && q.conn.is_some() {
                        /* a query that shares its connection with others is read when its turn
                         * comes, at the latest when its response leaves */
                        arrive_hi = arrive_hi.max(*at_ns);
                    }
                    if maybe_cache && !from_cache {
                        age = ((arrive_hi - rep.handed_ns) / 1_000_000_000) as u32;
                    }
                    if from_cache {
                        res.probe("C06.served_from_cache");
                        let d_ns = sent_at_ns[qi] - rep.handed_hi_ns;
                        age_lo = (d_ns / 1_000_000_000) as u32;
                        let min_ttl = um.answer.iter().chain(um.authority.iter()).chain(um.additional.iter()).filter(|r| r.rtype != T_OPT).map(|r| r.ttl).min().unwrap_or(0);
                        age = ((arrive_hi - rep.handed_ns) / 1_000_000_000) as u32;
                        /* (a reply without records has no smallest TTL; a record-less response is
                         * attributed by rcode only and may be erbium's own cached error) */
                        let has_records = !(um.answer.is_empty() && um.authority.is_empty() && um.non_opt_additional().is_empty());
                        if has_records && d_ns > min_ttl as u64 * 1_000_000_000 {
                            res.violate("C06", "C06.stale_entry_served", format!("reply #{} (min TTL {} s) was obtained at {} ns and served from cache at {} ns ({} ns later)", rep.serial, min_ttl, rep.handed_ns, sent_at_ns[qi], d_ns), qi);
                        }
                        if d_ns == min_ttl as u64 * 1_000_000_000 {
                            res.probe("C06.hit_exactly_at_ttl");
                        }
                        /* which query fetched this reply is only known up to (name, type, class):
                         * erbium's upstream query does not carry CD.  The entry may be served to q
                         * only if some query with q's DO and CD bits can have fetched it. */
                        let dobit = |x: &QuerySpec| x.edns.as_ref().map(|e| e.do_bit).unwrap_or(false);
                        let fetchers: Vec<&QuerySpec> = plan.queries.iter().enumerate().filter(|(oi, o)| o.raw.is_none() && key_of(o) == key_of(rq) && sent_at_ns[*oi] <= rep.handed_hi_ns && *oi != qi).map(|(_, o)| o).collect();
                        /* (a record-less response is attributed by rcode only: it may just as well
                         * be erbium's own error reply, so it says nothing about cache keys) */
                        if has_records && !fetchers.iter().any(|o| o.cd == q.cd && dobit(o) == dobit(q)) {
                            res.violate(
                                "C06",
                                "C06.entry_served_for_other_key",
                                format!("reply #{} was fetched by a query with (DO, CD) in {:?} but served from cache to ({}, type {}, DO {}, CD {})", rep.serial, fetchers.iter().map(|o| (dobit(o), o.cd)).collect::<BTreeSet<_>>(), q.qname.to_text(), q.qtype, dobit(q), q.cd),
                                qi,
                            );
                        } else if fetchers.iter().any(|o| o.cd != q.cd || dobit(o) != dobit(q)) {
                            res.probe("C06.near_miss_key_in_same_run");
                        }
                    } else if key_count[&key_of(q)] > 1 {
                        res.probe("C06.repeated_key_resolved_upstream");
                    }
                    /* Whatever the path: data handed over by an upstream at t_h and sent on at
                     * t_out has been held for t_out - t_h; held longer than its smallest TTL it
                     * is stale (a reply relayed by the query that fetched it is held for no
                     * simulated time at all).  UDP only: the send instant is exact. */
                    if !q.tcp && !from_cache {
                        let held_ns = at_ns.saturating_sub(rep.handed_hi_ns);
                        let min_ttl = um.answer.iter().chain(um.authority.iter()).chain(um.additional.iter()).filter(|r| r.rtype != T_OPT).map(|r| r.ttl).min().unwrap_or(0);
                        if held_ns > 0 {
                            res.probe("C06.reply_held_before_it_was_sent_on");
                        }
                        let has_records = !(um.answer.is_empty() && um.authority.is_empty() && um.non_opt_additional().is_empty());
                        if has_records && held_ns > min_ttl as u64 * 1_000_000_000 && held_ns > 50_000_000 {
                            res.violate(
                                "C06",
                                "C06.stale_data_sent",
                                format!("reply #{} (min TTL {} s) reached erbium at {} ns and was sent to {} at {} ns, {} ns later, in answer to a query that arrived before it", rep.serial, min_ttl, rep.handed_hi_ns, q.src_ip, at_ns, held_ns),
                                qi,
                            );
                        }
                    }
                    // ---- C03 / C04: sections, truncation
                    let up_add = um.non_opt_additional();
                    let expected: [&[Rr]; 3] = [&um.answer, &um.authority, &up_add];
                    let got_add = m.non_opt_additional();
                    let got: [&[Rr]; 3] = [&m.answer, &m.authority, &got_add];
                    let names = ["answer", "authority", "additional"];
                    let mut missing = false;
                    let mut bad = false;
                    for s in 0..3 {
                        if missing && !got[s].is_empty() {
                            res.violate("C04", "C04.records_missing_not_from_the_end", format!("{} section has records although an earlier section was cut", names[s]), qi);
                            bad = true;
                            break;
                        }
                        if got[s].len() > expected[s].len() {
                            res.violate("C03", &format!("C03.{}_section_has_extra_records", names[s]), format!("{}: upstream reply #{} has {} {} records, the response has {}: first extra {:?}", q.qname.to_text(), rep.serial, expected[s].len(), names[s], got[s].len(), got[s].get(expected[s].len())), qi);
                            bad = true;
                            break;
                        }
                        for (i, (a, b)) in got[s].iter().zip(expected[s].iter()).enumerate() {
                            if !same_rr_but_ttl(a, b) {
                                if a.rtype == b.rtype && a.class == b.class {
                                    /* same record, other name or data: decode -> re-encode is not the identity */
                                    res.violate("C14", if a.name != b.name { "C14.owner_name_changed_by_reencoding" } else { "C14.rdata_changed_by_reencoding" }, format!("{} record {} of the response to {}: got {:?} upstream said {:?}", names[s], i, q.qname.to_text(), a, b), qi);
                                }
                                res.violate("C03", &format!("C03.{}_record_differs", names[s]), format!("{} record {} of the response to {}: got {:?} upstream said {:?}", names[s], i, q.qname.to_text(), a, b), qi);
                                bad = true;
                                break;
                            }
                            /* the age erbium may have used lies between the two bounds */
                            let ok = (age_lo..=age).any(|g| b.ttl.checked_sub(g) == Some(a.ttl));
                            if !ok {
                                if from_cache {
                                    res.violate("C06", "C06.ttl_not_aged_correctly", format!("record with original TTL {} served from cache after {} whole seconds with TTL {}", b.ttl, age, a.ttl), qi);
                                } else {
                                    res.violate("C03", "C03.ttl_changed", format!("upstream TTL {} relayed as {}", b.ttl, a.ttl), qi);
                                }
                                bad = true;
                                break;
                            }
                        }
                        if bad {
                            break;
                        }
                        if got[s].len() < expected[s].len() {
                            missing = true;
                        }
                    }
                    if bad {
                        continue;
                    }
                    if m.tc() && m.opt().is_none() {
                        /* erbium's own OPT record did not fit either: the response is truncated */
                        missing = true;
                    }
                    let rcode_same = if m.tc() && m.opt().is_none() { rcode & 0xf == um.rcode() & 0xf } else { rcode == um.rcode() };
                    if !rcode_same {
                        res.violate("C03", "C03.rcode_differs", format!("upstream rcode {} relayed as {}", um.rcode(), rcode), qi);
                        if um.rcode() > 15 || rcode > 15 {
                            /* the 12-bit rcode is split between header and OPT ttl: on the forwarder
                             * path it only passes through erbium's decoder and encoder */
                            res.violate("C14", "C14.extended_rcode_changed_by_reencoding", format!("upstream rcode {} (12 bits across header and OPT) came out as {} after decode and re-encode", um.rcode(), rcode), qi);
                        }
                    }
                    if missing != m.tc() {
                        res.violate("C04", if missing { "C04.records_missing_without_tc" } else { "C04.tc_set_on_complete_response" }, format!("{}: upstream reply #{} has {}/{}/{} records, response has {}/{}/{}, TC={}", q.qname.to_text(), rep.serial, expected[0].len(), expected[1].len(), expected[2].len(), got[0].len(), got[1].len(), got[2].len(), m.tc()), qi);
                    }
                    if missing {
                        res.probe("C04.truncated_response");
                        let full = encode(um, false).len() + 64;
                        if q.tcp && full <= 65535 {
                            res.violate("C04", "C04.tcp_response_truncated_although_it_fits", format!("full answer is about {} octets, client advertised {:?}; the TCP response has {} octets and TC", full, q.edns.as_ref().map(|e| e.size), bytes.len()), qi);
                        }
                        /* (judged against the uncompressed size: which names of which record types
                         * an encoder may compress is its own choice, and with labels of 63 octets
                         * that choice is worth more than any fixed allowance) */
                        if !q.tcp && bytes.len() + 64 < adv && encode(um, false).len() + 64 < adv {
                            res.violate("C04", "C04.udp_response_truncated_although_it_fits", format!("limit {} but response cut to {} octets", adv, bytes.len()), qi);
                        }
                    } else {
                        res.probe("C03.complete_relayed_answer");
                        if bytes.len() > 16384 {
                            res.probe("C14.response_over_16k");
                        }
                        if d.pointers.len() > 20 {
                            res.probe("C14.many_compression_pointers");
                        }
                        /* how many pointers in a row does the deepest name of the response take */
                        let by_at: HashMap<usize, usize> = d.pointers.iter().map(|p| (p.at, p.target)).collect();
                        let mut deepest = 0usize;
                        for p in &d.pointers {
                            let (mut hops, mut pos) = (1usize, p.target);
                            while hops < 200 {
                                /* walk the labels at pos up to the root or the next pointer */
                                while pos < bytes.len() && bytes[pos] != 0 && bytes[pos] & 0xc0 == 0 {
                                    pos += 1 + bytes[pos] as usize;
                                }
                                match by_at.get(&pos) {
                                    Some(t) => {
                                        hops += 1;
                                        pos = *t;
                                    }
                                    None => break,
                                }
                            }
                            deepest = deepest.max(hops);
                        }
                        if m.answer.iter().chain(m.authority.iter()).chain(m.additional.iter()).any(|r| r.name.0.iter().any(|l| l.len() >= 62)) {
                            res.probe("C14.label_of_62_or_63_octets_relayed");
                        }
                        if deepest > 10 {
                            res.probe("C14.name_expanded_through_more_than_10_pointers_in_a_row");
                        }
                        if deepest > 60 {
                            res.probe("C14.name_expanded_through_more_than_60_pointers_in_a_row");
                        }
                    }
                }
            }
        }
    }
    // ---- C16: REFUSED volume per source, quiet sources, cookie exemptions
    const BURST: f64 = 16384.0;
    const RATE: f64 = 1024.0;
    let by_port: HashMap<(IpAddr, u16), usize> = plan.queries.iter().enumerate().map(|(i, q)| ((q.src_ip, q.src_port), i)).collect();
    let mut refused: BTreeMap<IpAddr, Vec<(u64, usize)>> = BTreeMap::new();
    let mut refused_per_query: HashMap<usize, usize> = HashMap::new();
    for o in &outs {
        if let (OutKind::Udp { dst, data, .. }, None) = (&o.kind, o.errno) {
            let Some(qi) = by_port.get(&(dst.ip(), dst.port())) else { continue };
            let is_refused = data.len() >= 4 && data[3] & 0xf == 5;
            if !is_refused {
                continue;
            }
            *refused_per_query.entry(*qi).or_insert(0) += 1;
            if plan.queries[*qi].exempt {
                res.probe("C16.refused_sent_to_cookie_holder");
                continue;
            }
            refused.entry(dst.ip()).or_default().push((o.at_ns, data.len()));
        }
    }
    for (src, v) in &refused {
        let nq = plan.queries.iter().filter(|q| q.src_ip == *src).count();
        if nq >= 100 {
            res.probe("C16.flood_of_100_or_more");
        }
        'outer: for i in 0..v.len() {
            let mut sum = 0usize;
            for j in i..v.len() {
                sum += v[j].1;
                let dt = (v[j].0 - v[i].0) as f64 / 1e9;
                if sum as f64 > BURST + RATE * dt {
                    res.violate(
                        "C16",
                        if plan.shape == "cookie" { "C16.refused_volume_unbounded_with_invalid_cookie" } else { "C16.refused_volume_unbounded" },
                        format!("{} octets of REFUSED were sent to {} within {:.3} s ({} queries from that source in the run): more than a burst of {} plus {} octets/s", sum, src, dt, nq, BURST, RATE),
                        0,
                    );
                    break 'outer;
                }
            }
        }
    }
    for (qi, q) in plan.queries.iter().enumerate() {
        if q.quiet_probe {
            nontrivial += 1;
            res.probe("C16.quiet_source_probe");
            let earlier = plan.queries.iter().filter(|o| o.src_ip == q.src_ip && o.at_ms < q.at_ms).map(|o| o.at_ms).max();
            if plan.shape == "manyflood" {
                res.probe(if earlier.is_some() { "C16.flooder_probes_again_after_everybody_was_silent" } else { "C16.fresh_source_probes_while_many_others_flood" });
            }
            if refused_per_query.get(&qi).copied().unwrap_or(0) == 0 {
                let crowd = plan.shape == "manyflood" && earlier.is_none();
                res.violate(
                    "C16",
                    if crowd { "C16.fresh_source_got_no_refused.while_many_other_sources_flood" } else if earlier.is_some() { "C16.quiet_source_got_no_refused" } else { "C16.fresh_source_got_no_refused" },
                    format!("{} sent a query that is refused (by policy, or by its upstream) at {} ms; its previous query was at {:?} ms; no REFUSED response was sent", q.src_ip, q.at_ms, earlier),
                    qi,
                );
            }
        }
    }
    if plan.shape == "cookie" {
        nontrivial += 1;
        let learnt = plan.queries.first().map(|q| outs.iter().any(|o| matches!(&o.kind, OutKind::Udp { dst, data, .. } if dst.port() == q.src_port && decode(data).map(|d| d.msg.edns_options().iter().any(|(c, v)| *c == 10 && v.len() > 8)).unwrap_or(false)))).unwrap_or(false);
        if learnt {
            res.probe("C16.server_cookie_learnt");
            res.probe(&format!("C16.cookie_case.{}", plan.cookie_case));
            /* how much of the flood was actually held back (evidence that the bound bit) */
            let asked = plan.queries.iter().filter(|q| q.flood && !q.exempt).count();
            let answered: usize = plan.queries.iter().enumerate().filter(|(_, q)| q.flood && !q.exempt).map(|(i, _)| refused_per_query.get(&i).copied().unwrap_or(0).min(1)).sum();
            if asked > answered {
                res.probe("C16.invalid_cookie_flood_partly_unanswered");
            }
        } else {
            res.observations.push("no server cookie was returned to the learning query".into());
        }
    }
    res.nontrivial = nontrivial > 0;
}

/// No fault touched this query or its upstream exchange (DESIGN.md section 4).
/// Did anything at all come back for this query?
fn g_responded(g: &Shared, outs: &[crate::kernel::OutEv], q: &QuerySpec, qi: usize) -> bool {
    if q.tcp {
        !g.tcp_frames[qi].is_empty()
    } else {
        outs.iter().any(|o| matches!(&o.kind, OutKind::Udp { dst, .. } if dst.ip() == q.src_ip && dst.port() == q.src_port))
    }
}

/// The only fault that can have touched this UDP query is loss of some transmissions of
/// its own upstream exchange.
fn only_own_udp_loss(plan: &PlanB, q: &QuerySpec) -> bool {
    /* (a duplicated client datagram starts two exchanges of its own; which of them an
     * upstream answer belonged to cannot be told from the outside) */
    if q.tcp || q.after_faults || q.dup_in {
        return false;
    }
    /* erbium's own transmissions must have gone out (no loss, no failed sendmsg); a late or
     * duplicated reply to an earlier exchange that arrives on a reused port (small port
     * range, whatever the entropy of the ids) moves the exchange to TCP by design
     * (outquery.rs: "a late reply to some other query that used this port before ...
     * immediately retry over TCP"), where other faults may apply */
    if plan.out_loss_p > 0.0 || plan.send_err_p > 0.0 || plan.eph_ports > 0 {
        return false;
    }
    if !plan.clock_jumps.is_empty() {
        return false;
    }
    /* whatever else goes wrong in the plan (dead TCP upstreams, other queries' faults): this
     * exchange runs over UDP only */
    matches!(q.up, UpBehaviour::Pattern { .. } | UpBehaviour::AnswerFrom { .. } | UpBehaviour::Normal { .. } | UpBehaviour::Dup { .. })
}

fn is_clean(plan: &PlanB, q: &QuerySpec) -> bool {
    if q.after_faults {
        /* probabilistic network faults have stopped 200 s before; its own exchange is well behaved */
        return true;
    }
    /* (low-entropy query ids are not a fault: colliding ids must be renumbered, replies
     * that answer another question ignored) */
    if plan.out_loss_p > 0.0 || plan.out_dup_p > 0.0 || plan.out_delay_p > 0.0 || plan.send_err_p > 0.0 {
        return false;
    }
    if plan.upstream_tcp.iter().any(|m| m != "accept") {
        return false;
    }
    /* faults on shared upstream streams touch every query that may use them */
    if plan.queries.iter().any(|o| !matches!(o.up_tcp, UpTcp::Normal | UpTcp::OneByte)) {
        return false;
    }
    match &q.up {
        UpBehaviour::Normal { delay_ms } if *delay_ms <= 250 => true,
        UpBehaviour::Tc => true,
        _ => false,
    }
}

pub fn run_plan(plan: &PlanB, opts: &ExecB) -> RunResult {
    let rt = tokio::runtime::Builder::new_current_thread().enable_time().start_paused(true).build().unwrap();
    let p = Arc::new(plan.clone());
    let r = rt.block_on(run_async(p, opts));
    drop(rt);
    r
}
