//! Types shared by all worlds: what a worker reports back for one run.

use serde::{Deserialize, Serialize};
use std::collections::BTreeMap;

#[derive(Clone, Debug, Serialize, Deserialize, PartialEq)]
pub struct Violation {
    pub property: String,
    /// stable identifier of *what* failed, e.g. `C09.held_lease_not_reused`
    pub kind: String,
    pub detail: String,
    pub step: usize,
}

#[derive(Clone, Debug, Default, Serialize, Deserialize)]
pub struct RunResult {
    pub seed: u64,
    pub world: String,
    pub violations: Vec<Violation>,
    /// observations that are not violations (e.g. power-loss outcomes)
    pub observations: Vec<String>,
    pub probes: BTreeMap<String, u64>,
    pub faults: BTreeMap<String, u64>,
    pub events: u64,
    pub event_hash: String,
    /// coarse shape of the run, for counting distinct non-trivial runs
    pub shape: String,
    pub nontrivial: bool,
    pub sim_ms: u64,
    pub steps: usize,
    pub harness_error: Option<String>,
    pub trace: Option<Vec<String>>,
    /// mutating disk calls made by erbium over the whole run
    #[serde(default)]
    pub disk_calls: u64,
    /// order-free summary of what every request got and of the final store
    #[serde(default)]
    pub digest: Vec<String>,
}

impl RunResult {
    pub fn probe(&mut self, name: &str) {
        *self.probes.entry(name.to_string()).or_insert(0) += 1;
    }
    pub fn probe_n(&mut self, name: &str, n: u64) {
        *self.probes.entry(name.to_string()).or_insert(0) += n;
    }
    pub fn violate(&mut self, property: &str, kind: &str, detail: String, step: usize) {
        /* one report per kind per run is enough; keep the first */
        if self.violations.iter().any(|v| v.kind == kind) {
            return;
        }
        self.violations.push(Violation { property: property.into(), kind: kind.into(), detail, step });
    }
}

pub fn hex(b: &[u8]) -> String {
    b.iter().map(|x| format!("{:02x}", x)).collect()
}

/// Panics observed in erbium code during a run (recorded by the panic hook).
pub static PANICS: std::sync::Mutex<Vec<(String, String)>> = std::sync::Mutex::new(Vec::new());

pub fn install_panic_hook() {
    std::panic::set_hook(Box::new(|info| {
        let loc = info
            .location()
            .map(|l| {
                let f = l.file();
                let f = f.rsplit("crates/").next().unwrap_or(f);
                format!("{}:{}", f, l.line())
            })
            .unwrap_or_else(|| "?".into());
        let msg = if let Some(s) = info.payload().downcast_ref::<&str>() {
            s.to_string()
        } else if let Some(s) = info.payload().downcast_ref::<String>() {
            s.clone()
        } else {
            "?".into()
        };
        if let Ok(mut p) = PANICS.lock() {
            p.push((loc, msg));
        }
    }));
}

pub fn take_panics() -> Vec<(String, String)> {
    PANICS.lock().map(|mut p| std::mem::take(&mut *p)).unwrap_or_default()
}

/// A `log` sink at the level erbium runs with; every record is formatted (so
/// the arguments, which decode attacker-controlled bytes, are evaluated) and
/// then dropped, unless tracing is on.
pub struct SinkLogger {
    pub keep: std::sync::Mutex<Option<Vec<String>>>,
}

pub static LOGGER: SinkLogger = SinkLogger { keep: std::sync::Mutex::new(None) };

impl log::Log for SinkLogger {
    fn enabled(&self, m: &log::Metadata) -> bool {
        m.level() <= log::Level::Info
    }
    fn log(&self, r: &log::Record) {
        if !self.enabled(r.metadata()) {
            return;
        }
        let s = format!("{} {}: {}", r.level(), r.target(), r.args());
        if let Ok(mut k) = self.keep.lock() {
            if let Some(v) = k.as_mut() {
                v.push(s);
            }
        }
    }
    fn flush(&self) {}
}

pub fn install_logger(keep: bool) {
    let _ = log::set_logger(&LOGGER);
    log::set_max_level(log::LevelFilter::Info);
    if keep {
        *LOGGER.keep.lock().unwrap() = Some(vec![]);
    }
}
