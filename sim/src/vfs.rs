//! The simulated disk: an in-memory SQLite VFS registered as the default, so
//! `Connection::open("/var/lib/erbium/leases.sqlite")` inside erbium lands
//! here.  SQLite's pager, journal and hot-journal recovery are the real code.
//!
//! Crash model (DESIGN.md 2.3): the process is killed just before the k-th
//! mutating VFS call; the operating system's page cache survives, so the
//! post-crash disk is exactly the effect of calls 1..k-1.

use rusqlite::ffi;
use std::collections::BTreeMap;
use std::ffi::{CStr, c_char, c_int, c_void};
use std::sync::Mutex;

#[derive(Clone, Copy, Debug, PartialEq, Eq)]
pub enum DiskFault {
    IoErr,
    Full,
}

#[derive(Default)]
pub struct DiskState {
    pub files: BTreeMap<String, Vec<u8>>,
    /// mutating calls made by the live erbium incarnation since boot
    pub calls: u64,
    pub total_calls: u64,
    pub crash_at: Option<u64>,
    pub fault_at: Option<(u64, DiskFault)>,
    /// this many of the next reads by erbium fail with SQLITE_IOERR_READ
    pub read_fail_next: u32,
    pub dead: bool,
    pub epoch: u32,
    pub observer: bool,
    pub crash_image: Option<BTreeMap<String, Vec<u8>>>,
    /// names of the mutating calls since boot, for probes
    pub call_names: Vec<String>,
    pub faults_fired: u64,
    pub harness_panic: Option<String>,
    pub hash: u64,
    rnd: u64,
    temp: u64,
}

pub static DISK: Mutex<Option<DiskState>> = Mutex::new(None);

pub fn with_disk<R>(f: impl FnOnce(&mut DiskState) -> R) -> R {
    let mut g = DISK.lock().unwrap_or_else(|e| e.into_inner());
    f(g.get_or_insert_with(DiskState::default))
}

impl DiskState {
    /// The erbium process is gone; the next incarnation boots from `image`
    /// (None: from whatever is on the disk now).
    pub fn reboot(&mut self, image: Option<BTreeMap<String, Vec<u8>>>) {
        if let Some(i) = image {
            self.files = i;
        }
        self.epoch += 1;
        self.dead = false;
        self.calls = 0;
        self.crash_at = None;
        self.fault_at = None;
        self.read_fail_next = 0;
        self.crash_image = None;
        self.call_names.clear();
    }
}

#[repr(C)]
struct SimFile {
    base: ffi::sqlite3_file,
    name: *mut String,
    epoch: u32,
    observer: bool,
    delete_on_close: bool,
}

enum Gate {
    Go,
    Fail(c_int),
}

/// Account for one mutating call by handle `f`; decide whether it happens.
fn gate(d: &mut DiskState, epoch: u32, observer: bool, what: &str, name: &str) -> Gate {
    if observer {
        return Gate::Go;
    }
    if epoch != d.epoch || d.dead {
        return Gate::Fail(ffi::SQLITE_IOERR);
    }
    d.calls += 1;
    d.total_calls += 1;
    d.hash = crate::rng::mix64(d.hash ^ crate::rng::hash_str(what) ^ crate::rng::hash_str(name).rotate_left(7));
    let short = name.rsplit('/').next().unwrap_or(name);
    d.call_names.push(format!("{}:{}", what, short));
    if d.crash_at == Some(d.calls) {
        d.dead = true;
        d.crash_image = Some(d.files.clone());
        return Gate::Fail(ffi::SQLITE_IOERR);
    }
    if let Some((k, kind)) = d.fault_at {
        if k == d.calls {
            d.faults_fired += 1;
            d.fault_at = None;
            return Gate::Fail(match (kind, what) {
                (DiskFault::Full, "write") => ffi::SQLITE_FULL,
                (_, "write") => ffi::SQLITE_IOERR_WRITE,
                (_, "sync") => ffi::SQLITE_IOERR_FSYNC,
                (_, "truncate") => ffi::SQLITE_IOERR_TRUNCATE,
                (_, "delete") => ffi::SQLITE_IOERR_DELETE,
                _ => ffi::SQLITE_IOERR,
            });
        }
    }
    Gate::Go
}

fn guarded(default: c_int, f: impl FnOnce(&mut DiskState) -> c_int) -> c_int {
    let r = std::panic::catch_unwind(std::panic::AssertUnwindSafe(|| with_disk(f)));
    match r {
        Ok(v) => v,
        Err(_) => {
            if let Ok(mut g) = DISK.try_lock() {
                if let Some(d) = g.as_mut() {
                    d.harness_panic = Some("panic inside a VFS callback".into());
                }
            }
            default
        }
    }
}

unsafe fn file<'a>(f: *mut ffi::sqlite3_file) -> &'a mut SimFile {
    unsafe { &mut *(f as *mut SimFile) }
}

unsafe extern "C" fn x_close(f: *mut ffi::sqlite3_file) -> c_int {
    let sf = unsafe { file(f) };
    if sf.name.is_null() {
        return ffi::SQLITE_OK;
    }
    let name = unsafe { Box::from_raw(sf.name) };
    sf.name = std::ptr::null_mut();
    let (epoch, observer, doc) = (sf.epoch, sf.observer, sf.delete_on_close);
    guarded(ffi::SQLITE_OK, |d| {
        if doc && (observer || (epoch == d.epoch && !d.dead)) {
            d.files.remove(&*name);
        }
        ffi::SQLITE_OK
    })
}

unsafe extern "C" fn x_read(f: *mut ffi::sqlite3_file, buf: *mut c_void, amt: c_int, ofst: i64) -> c_int {
    let sf = unsafe { file(f) };
    let name = unsafe { &*sf.name };
    let out = unsafe { std::slice::from_raw_parts_mut(buf as *mut u8, amt as usize) };
    let (epoch, observer) = (sf.epoch, sf.observer);
    guarded(ffi::SQLITE_IOERR_READ, |d| {
        if !observer && (epoch != d.epoch || d.dead) {
            return ffi::SQLITE_IOERR_READ;
        }
        if !observer && d.read_fail_next > 0 {
            d.read_fail_next -= 1;
            d.faults_fired += 1;
            return ffi::SQLITE_IOERR_READ;
        }
        let empty = vec![];
        let data = d.files.get(name).unwrap_or(&empty);
        let ofst = ofst as usize;
        let avail = data.len().saturating_sub(ofst);
        let n = avail.min(out.len());
        if n > 0 {
            out[..n].copy_from_slice(&data[ofst..ofst + n]);
        }
        if n < out.len() {
            for b in &mut out[n..] {
                *b = 0;
            }
            ffi::SQLITE_IOERR_SHORT_READ
        } else {
            ffi::SQLITE_OK
        }
    })
}

unsafe extern "C" fn x_write(f: *mut ffi::sqlite3_file, buf: *const c_void, amt: c_int, ofst: i64) -> c_int {
    let sf = unsafe { file(f) };
    let name = unsafe { &*sf.name };
    let src = unsafe { std::slice::from_raw_parts(buf as *const u8, amt as usize) };
    let (epoch, observer) = (sf.epoch, sf.observer);
    guarded(ffi::SQLITE_IOERR_WRITE, |d| {
        if let Gate::Fail(rc) = gate(d, epoch, observer, "write", name) {
            return rc;
        }
        let data = d.files.entry(name.clone()).or_default();
        let end = ofst as usize + src.len();
        if data.len() < end {
            data.resize(end, 0);
        }
        data[ofst as usize..end].copy_from_slice(src);
        ffi::SQLITE_OK
    })
}

unsafe extern "C" fn x_truncate(f: *mut ffi::sqlite3_file, size: i64) -> c_int {
    let sf = unsafe { file(f) };
    let name = unsafe { &*sf.name };
    let (epoch, observer) = (sf.epoch, sf.observer);
    guarded(ffi::SQLITE_IOERR_TRUNCATE, |d| {
        if let Gate::Fail(rc) = gate(d, epoch, observer, "truncate", name) {
            return rc;
        }
        let data = d.files.entry(name.clone()).or_default();
        data.truncate(size as usize);
        ffi::SQLITE_OK
    })
}

unsafe extern "C" fn x_sync(f: *mut ffi::sqlite3_file, _flags: c_int) -> c_int {
    let sf = unsafe { file(f) };
    let name = unsafe { &*sf.name };
    let (epoch, observer) = (sf.epoch, sf.observer);
    guarded(ffi::SQLITE_IOERR_FSYNC, |d| match gate(d, epoch, observer, "sync", name) {
        Gate::Fail(rc) => rc,
        Gate::Go => ffi::SQLITE_OK,
    })
}

unsafe extern "C" fn x_file_size(f: *mut ffi::sqlite3_file, size: *mut i64) -> c_int {
    let sf = unsafe { file(f) };
    let name = unsafe { &*sf.name };
    let (epoch, observer) = (sf.epoch, sf.observer);
    guarded(ffi::SQLITE_IOERR_FSTAT, |d| {
        if !observer && (epoch != d.epoch || d.dead) {
            return ffi::SQLITE_IOERR_FSTAT;
        }
        unsafe { *size = d.files.get(name).map(|v| v.len()).unwrap_or(0) as i64 };
        ffi::SQLITE_OK
    })
}

unsafe extern "C" fn x_lock(_f: *mut ffi::sqlite3_file, _l: c_int) -> c_int {
    ffi::SQLITE_OK
}
unsafe extern "C" fn x_unlock(_f: *mut ffi::sqlite3_file, _l: c_int) -> c_int {
    ffi::SQLITE_OK
}
unsafe extern "C" fn x_check_reserved(_f: *mut ffi::sqlite3_file, out: *mut c_int) -> c_int {
    unsafe { *out = 0 };
    ffi::SQLITE_OK
}
unsafe extern "C" fn x_file_control(_f: *mut ffi::sqlite3_file, _op: c_int, _arg: *mut c_void) -> c_int {
    ffi::SQLITE_NOTFOUND
}
unsafe extern "C" fn x_sector_size(_f: *mut ffi::sqlite3_file) -> c_int {
    512
}
unsafe extern "C" fn x_dev_char(_f: *mut ffi::sqlite3_file) -> c_int {
    0
}

static IO_METHODS: ffi::sqlite3_io_methods = ffi::sqlite3_io_methods {
    iVersion: 1,
    xClose: Some(x_close),
    xRead: Some(x_read),
    xWrite: Some(x_write),
    xTruncate: Some(x_truncate),
    xSync: Some(x_sync),
    xFileSize: Some(x_file_size),
    xLock: Some(x_lock),
    xUnlock: Some(x_unlock),
    xCheckReservedLock: Some(x_check_reserved),
    xFileControl: Some(x_file_control),
    xSectorSize: Some(x_sector_size),
    xDeviceCharacteristics: Some(x_dev_char),
    xShmMap: None,
    xShmLock: None,
    xShmBarrier: None,
    xShmUnmap: None,
    xFetch: None,
    xUnfetch: None,
};

unsafe extern "C" fn v_open(
    _v: *mut ffi::sqlite3_vfs,
    zname: *const c_char,
    f: *mut ffi::sqlite3_file,
    flags: c_int,
    out_flags: *mut c_int,
) -> c_int {
    let sf = unsafe { file(f) };
    sf.base.pMethods = std::ptr::null();
    sf.name = std::ptr::null_mut();
    let given = if zname.is_null() { None } else { Some(unsafe { CStr::from_ptr(zname) }.to_string_lossy().into_owned()) };
    let mut chosen = String::new();
    let mut meta = (0u32, false);
    let rc = guarded(ffi::SQLITE_CANTOPEN, |d| {
        let observer = d.observer;
        let name = match given {
            Some(n) => n,
            None => {
                d.temp += 1;
                format!("/tmp/sqlite-temp-{}", d.temp)
            }
        };
        if !observer && d.dead {
            return ffi::SQLITE_IOERR;
        }
        let exists = d.files.contains_key(&name);
        if !exists {
            if flags & ffi::SQLITE_OPEN_CREATE == 0 {
                return ffi::SQLITE_CANTOPEN;
            }
            if let Gate::Fail(rc) = gate(d, d.epoch, observer, "create", &name) {
                return if rc == ffi::SQLITE_IOERR { rc } else { ffi::SQLITE_CANTOPEN };
            }
            d.files.insert(name.clone(), vec![]);
        }
        meta = (d.epoch, observer);
        chosen = name;
        ffi::SQLITE_OK
    });
    if rc != ffi::SQLITE_OK {
        return rc;
    }
    sf.name = Box::into_raw(Box::new(chosen));
    sf.epoch = meta.0;
    sf.observer = meta.1;
    sf.delete_on_close = flags & ffi::SQLITE_OPEN_DELETEONCLOSE != 0;
    sf.base.pMethods = &IO_METHODS;
    if !out_flags.is_null() {
        unsafe { *out_flags = flags };
    }
    ffi::SQLITE_OK
}

unsafe extern "C" fn v_delete(_v: *mut ffi::sqlite3_vfs, zname: *const c_char, _sync_dir: c_int) -> c_int {
    let name = unsafe { CStr::from_ptr(zname) }.to_string_lossy().into_owned();
    guarded(ffi::SQLITE_IOERR_DELETE, |d| {
        let (e, o) = (d.epoch, d.observer);
        if let Gate::Fail(rc) = gate(d, e, o, "delete", &name) {
            return rc;
        }
        d.files.remove(&name);
        ffi::SQLITE_OK
    })
}

unsafe extern "C" fn v_access(_v: *mut ffi::sqlite3_vfs, zname: *const c_char, _flags: c_int, out: *mut c_int) -> c_int {
    let name = unsafe { CStr::from_ptr(zname) }.to_string_lossy().into_owned();
    guarded(ffi::SQLITE_IOERR_ACCESS, |d| {
        unsafe { *out = d.files.contains_key(&name) as c_int };
        ffi::SQLITE_OK
    })
}

unsafe extern "C" fn v_full_pathname(_v: *mut ffi::sqlite3_vfs, zname: *const c_char, n_out: c_int, z_out: *mut c_char) -> c_int {
    let name = unsafe { CStr::from_ptr(zname) }.to_bytes_with_nul();
    if name.len() > n_out as usize {
        return ffi::SQLITE_CANTOPEN;
    }
    unsafe { std::ptr::copy_nonoverlapping(name.as_ptr() as *const c_char, z_out, name.len()) };
    ffi::SQLITE_OK
}

unsafe extern "C" fn v_randomness(_v: *mut ffi::sqlite3_vfs, n: c_int, out: *mut c_char) -> c_int {
    let buf = unsafe { std::slice::from_raw_parts_mut(out as *mut u8, n as usize) };
    guarded(0, |d| {
        for b in buf.iter_mut() {
            d.rnd = crate::rng::mix64(d.rnd.wrapping_add(0x1234_5678_9abc_def1));
            *b = d.rnd as u8;
        }
        0
    });
    n
}

unsafe extern "C" fn v_sleep(_v: *mut ffi::sqlite3_vfs, us: c_int) -> c_int {
    us
}

unsafe extern "C" fn v_current_time(_v: *mut ffi::sqlite3_vfs, out: *mut f64) -> c_int {
    let secs = crate::interpose::wall_now_secs() as f64;
    unsafe { *out = 2440587.5 + secs / 86400.0 };
    ffi::SQLITE_OK
}

unsafe extern "C" fn v_last_error(_v: *mut ffi::sqlite3_vfs, _n: c_int, _out: *mut c_char) -> c_int {
    0
}

/// Register the simulated disk as SQLite's default VFS (once per process).
pub fn register() {
    static ONCE: std::sync::Once = std::sync::Once::new();
    ONCE.call_once(|| {
        let vfs = Box::new(ffi::sqlite3_vfs {
            iVersion: 1,
            szOsFile: std::mem::size_of::<SimFile>() as c_int,
            mxPathname: 512,
            pNext: std::ptr::null_mut(),
            zName: c"esim".as_ptr(),
            pAppData: std::ptr::null_mut(),
            xOpen: Some(v_open),
            xDelete: Some(v_delete),
            xAccess: Some(v_access),
            xFullPathname: Some(v_full_pathname),
            xDlOpen: None,
            xDlError: None,
            xDlSym: None,
            xDlClose: None,
            xRandomness: Some(v_randomness),
            xSleep: Some(v_sleep),
            xCurrentTime: Some(v_current_time),
            xGetLastError: Some(v_last_error),
            xCurrentTimeInt64: None,
            xSetSystemCall: None,
            xGetSystemCall: None,
            xNextSystemCall: None,
        });
        let rc = unsafe { ffi::sqlite3_vfs_register(Box::into_raw(vfs), 1) };
        assert_eq!(rc, ffi::SQLITE_OK, "cannot register the simulated VFS");
    });
}

pub const DB_PATH: &str = "/var/lib/erbium/leases.sqlite";

#[derive(Clone, Debug, PartialEq, Eq, PartialOrd, Ord)]
pub struct Row {
    pub address: String,
    pub clientid: Option<Vec<u8>>,
    pub start: i64,
    pub expiry: i64,
    pub options: Option<Vec<u8>>,
}

/// Ground truth: read the lease table through the harness's own connection
/// (never through erbium code).  Only called when erbium is quiescent.
pub fn read_rows() -> Result<(Vec<Row>, Option<i64>), String> {
    with_disk(|d| d.observer = true);
    let r = (|| -> Result<(Vec<Row>, Option<i64>), rusqlite::Error> {
        let conn = rusqlite::Connection::open_with_flags(
            DB_PATH,
            rusqlite::OpenFlags::SQLITE_OPEN_READ_ONLY | rusqlite::OpenFlags::SQLITE_OPEN_NO_MUTEX,
        )?;
        let has_options: bool = conn
            .prepare("SELECT 1 FROM pragma_table_info('leases') WHERE name='options'")?
            .exists([])?;
        let sql = if has_options {
            "SELECT address, clientid, start, expiry, options FROM leases ORDER BY address"
        } else {
            "SELECT address, clientid, start, expiry, NULL FROM leases ORDER BY address"
        };
        let mut st = conn.prepare(sql)?;
        let rows = st
            .query_map([], |r| {
                Ok(Row { address: r.get(0)?, clientid: r.get(1)?, start: r.get(2)?, expiry: r.get(3)?, options: r.get(4)? })
            })?
            .collect::<Result<Vec<_>, _>>()?;
        let ver: Option<i64> = conn
            .query_row("SELECT version FROM schema_version WHERE key='pool'", [], |r| r.get(0))
            .ok();
        Ok((rows, ver))
    })();
    with_disk(|d| d.observer = false);
    r.map_err(|e| e.to_string())
}

/// Run SQL against the simulated disk as the harness (to prepare images).
pub fn harness_sql(sql: &str) -> Result<(), String> {
    with_disk(|d| d.observer = true);
    let r = (|| -> Result<(), rusqlite::Error> {
        let conn = rusqlite::Connection::open(DB_PATH)?;
        conn.execute_batch(sql)
    })();
    with_disk(|d| d.observer = false);
    r.map_err(|e| e.to_string())
}
