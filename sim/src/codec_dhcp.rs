//! Independent DHCP / Ethernet / IPv4 / UDP codec used by the client actors.
//! Written from RFC 2131/2132/791/768, not from erbium's code.

use std::net::Ipv4Addr;

#[derive(Clone, Debug, PartialEq, Eq)]
pub struct DhcpMsg {
    pub op: u8,
    pub htype: u8,
    pub hlen: u8,
    pub hops: u8,
    pub xid: u32,
    pub secs: u16,
    pub flags: u16,
    pub ciaddr: Ipv4Addr,
    pub yiaddr: Ipv4Addr,
    pub siaddr: Ipv4Addr,
    pub giaddr: Ipv4Addr,
    pub chaddr: [u8; 16],
    /// options in wire order (code, value); pad/end are not listed
    pub options: Vec<(u8, Vec<u8>)>,
}

impl DhcpMsg {
    pub fn request(xid: u32, chaddr: &[u8], hlen: u8) -> Self {
        let mut c = [0u8; 16];
        c[..chaddr.len().min(16)].copy_from_slice(&chaddr[..chaddr.len().min(16)]);
        DhcpMsg {
            op: 1,
            htype: 1,
            hlen,
            hops: 0,
            xid,
            secs: 0,
            flags: 0,
            ciaddr: Ipv4Addr::UNSPECIFIED,
            yiaddr: Ipv4Addr::UNSPECIFIED,
            siaddr: Ipv4Addr::UNSPECIFIED,
            giaddr: Ipv4Addr::UNSPECIFIED,
            chaddr: c,
            options: vec![],
        }
    }
    /// RFC 3396: the value of an option is the concatenation of all its instances.
    pub fn opt(&self, code: u8) -> Option<Vec<u8>> {
        let mut out: Option<Vec<u8>> = None;
        for (c, v) in &self.options {
            if *c == code {
                out.get_or_insert_with(Vec::new).extend_from_slice(v);
            }
        }
        out
    }
    pub fn opt_ip(&self, code: u8) -> Option<Ipv4Addr> {
        match self.opt(code) {
            Some(v) if v.len() == 4 => Some(Ipv4Addr::new(v[0], v[1], v[2], v[3])),
            _ => None,
        }
    }
    pub fn opt_u32(&self, code: u8) -> Option<u32> {
        match self.opt(code) {
            Some(v) if v.len() == 4 => Some(u32::from_be_bytes([v[0], v[1], v[2], v[3]])),
            _ => None,
        }
    }
    pub fn msg_type(&self) -> Option<u8> {
        match self.opt(53) {
            Some(v) if v.len() == 1 => Some(v[0]),
            _ => None,
        }
    }
    pub fn encode(&self) -> Vec<u8> {
        let mut v = vec![self.op, self.htype, self.hlen, self.hops];
        v.extend_from_slice(&self.xid.to_be_bytes());
        v.extend_from_slice(&self.secs.to_be_bytes());
        v.extend_from_slice(&self.flags.to_be_bytes());
        v.extend_from_slice(&self.ciaddr.octets());
        v.extend_from_slice(&self.yiaddr.octets());
        v.extend_from_slice(&self.siaddr.octets());
        v.extend_from_slice(&self.giaddr.octets());
        v.extend_from_slice(&self.chaddr);
        v.extend_from_slice(&[0u8; 64]);
        v.extend_from_slice(&[0u8; 128]);
        v.extend_from_slice(&[0x63, 0x82, 0x53, 0x63]);
        for (c, val) in &self.options {
            assert!(val.len() <= 255 && *c != 0 && *c != 255);
            v.push(*c);
            v.push(val.len() as u8);
            v.extend_from_slice(val);
        }
        v.push(255);
        v
    }
}

/// Strict decode of a BOOTP/DHCP payload: the options area must be a clean
/// TLV sequence ending in an End option (pads allowed, nothing but pads after End).
pub fn decode(b: &[u8]) -> Result<DhcpMsg, String> {
    match decode_lenient(b)? {
        (m, None) => Ok(m),
        (_, Some(e)) => Err(e),
    }
}

/// Like `decode`, but a broken options area still yields the fixed header
/// (and the options read so far) together with the error.
pub fn decode_lenient(b: &[u8]) -> Result<(DhcpMsg, Option<String>), String> {
    if b.len() < 240 {
        return Err(format!("payload too short ({})", b.len()));
    }
    if b[236..240] != [0x63, 0x82, 0x53, 0x63] {
        return Err("bad magic cookie".into());
    }
    let ip = |o: usize| Ipv4Addr::new(b[o], b[o + 1], b[o + 2], b[o + 3]);
    let mut chaddr = [0u8; 16];
    chaddr.copy_from_slice(&b[28..44]);
    let mut options = vec![];
    let mut i = 240;
    let mut ended = false;
    let mut err = None;
    while i < b.len() {
        let c = b[i];
        i += 1;
        if ended {
            if c != 0 {
                err = Some(format!("non-pad octet {:#x} after End option", c));
                break;
            }
            continue;
        }
        match c {
            0 => (),
            255 => ended = true,
            _ => {
                if i >= b.len() {
                    err = Some(format!("option {} has no length octet", c));
                    break;
                }
                let l = b[i] as usize;
                i += 1;
                if i + l > b.len() {
                    err = Some(format!("option {} (len {}) runs past the end", c, l));
                    break;
                }
                options.push((c, b[i..i + l].to_vec()));
                i += l;
            }
        }
    }
    if !ended && err.is_none() {
        err = Some("options area has no End option".into());
    }
    Ok((DhcpMsg {
        op: b[0],
        htype: b[1],
        hlen: b[2],
        hops: b[3],
        xid: u32::from_be_bytes([b[4], b[5], b[6], b[7]]),
        secs: u16::from_be_bytes([b[8], b[9]]),
        flags: u16::from_be_bytes([b[10], b[11]]),
        ciaddr: ip(12),
        yiaddr: ip(16),
        siaddr: ip(20),
        giaddr: ip(24),
        chaddr,
        options,
    }, err))
}

fn csum(mut sum: u32, b: &[u8]) -> u32 {
    let mut i = 0;
    while i + 1 < b.len() {
        sum += u16::from_be_bytes([b[i], b[i + 1]]) as u32;
        i += 2;
    }
    if i < b.len() {
        sum += (b[i] as u32) << 8;
    }
    sum
}

fn fold(mut sum: u32) -> u16 {
    while sum > 0xffff {
        sum = (sum & 0xffff) + (sum >> 16);
    }
    sum as u16
}

#[derive(Clone, Debug)]
pub struct Frame {
    pub dst_mac: [u8; 6],
    pub src_mac: [u8; 6],
    pub src_ip: Ipv4Addr,
    pub dst_ip: Ipv4Addr,
    pub src_port: u16,
    pub dst_port: u16,
    pub udp_checksum_present: bool,
    pub payload: Vec<u8>,
}

/// Validate an Ethernet II / IPv4 / UDP frame the way a conforming receiver would.
pub fn decode_frame(f: &[u8]) -> Result<Frame, String> {
    if f.len() < 14 + 20 + 8 {
        return Err(format!("frame too short ({})", f.len()));
    }
    let mut dst_mac = [0u8; 6];
    let mut src_mac = [0u8; 6];
    dst_mac.copy_from_slice(&f[0..6]);
    src_mac.copy_from_slice(&f[6..12]);
    if f[12..14] != [0x08, 0x00] {
        return Err("ethertype is not IPv4".into());
    }
    let ip = &f[14..];
    if ip[0] >> 4 != 4 {
        return Err("IP version is not 4".into());
    }
    let ihl = (ip[0] & 0xf) as usize * 4;
    if ihl < 20 || ip.len() < ihl {
        return Err("bad IHL".into());
    }
    let total = u16::from_be_bytes([ip[2], ip[3]]) as usize;
    if total != ip.len() {
        return Err(format!("IPv4 total length {} but {} octets follow the Ethernet header", total, ip.len()));
    }
    if fold(csum(0, &ip[..ihl])) != 0xffff {
        return Err("IPv4 header checksum does not verify".into());
    }
    if u16::from_be_bytes([ip[6], ip[7]]) & 0x3fff != 0 {
        return Err("fragmented".into());
    }
    if ip[8] == 0 {
        return Err("TTL 0".into());
    }
    if ip[9] != 17 {
        return Err("protocol is not UDP".into());
    }
    let src_ip = Ipv4Addr::new(ip[12], ip[13], ip[14], ip[15]);
    let dst_ip = Ipv4Addr::new(ip[16], ip[17], ip[18], ip[19]);
    let udp = &ip[ihl..];
    if udp.len() < 8 {
        return Err("no room for a UDP header".into());
    }
    let ulen = u16::from_be_bytes([udp[4], udp[5]]) as usize;
    if ulen != udp.len() {
        return Err(format!("UDP length {} but {} octets follow the IP header", ulen, udp.len()));
    }
    let ck = u16::from_be_bytes([udp[6], udp[7]]);
    if ck != 0 {
        let mut s = csum(0, &ip[12..20]);
        s += 17;
        s += ulen as u32;
        s = csum(s, udp);
        if fold(s) != 0xffff {
            return Err("UDP checksum does not verify".into());
        }
    }
    Ok(Frame {
        dst_mac,
        src_mac,
        src_ip,
        dst_ip,
        src_port: u16::from_be_bytes([udp[0], udp[1]]),
        dst_port: u16::from_be_bytes([udp[2], udp[3]]),
        udp_checksum_present: ck != 0,
        payload: udp[8..].to_vec(),
    })
}
