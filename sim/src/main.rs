mod acl_model;
mod addr;
mod check;
mod supervisor;
mod codec_dhcp;
mod common;
mod interpose;
mod kernel;
mod rng;
mod vfs;
mod wa_exec;
mod wa_plan;
mod wb_exec;
mod wb_plan;
mod wc;
mod codec_dns;

fn arg(args: &[String], name: &str) -> Option<String> {
    args.iter().position(|a| a == name).and_then(|i| args.get(i + 1).cloned())
}

fn main() {
    let args: Vec<String> = std::env::args().collect();
    let cmd = args.get(1).map(|s| s.as_str()).unwrap_or("");
    match cmd {
        "run-a" => {
            let seed: u64 = arg(&args, "--seed").and_then(|s| s.parse().ok()).unwrap_or(1);
            let shape: &'static str = Box::leak(arg(&args, "--shape").unwrap_or("mixed".into()).into_boxed_str());
            let trace = args.iter().any(|a| a == "--trace");
            common::install_panic_hook();
            common::install_logger(trace);
            vfs::register();
            let plan = wa_plan::generate(seed, &wa_plan::GenOpts { shape, thorough: false });
            if args.iter().any(|a| a == "--plan") {
                println!("{}", serde_json::to_string_pretty(&plan).unwrap());
            }
            let res = std::thread::spawn(move || wa_exec::run_plan(&plan, &wa_exec::ExecOpts { trace, only: None })).join().unwrap();
            if trace {
                if let Some(l) = common::LOGGER.keep.lock().unwrap().as_ref() {
                    for x in l {
                        eprintln!("LOG {}", x);
                    }
                }
            }
            println!("{}", serde_json::to_string_pretty(&res).unwrap());
        }
        "run-b" => {
            let seed: u64 = arg(&args, "--seed").and_then(|s| s.parse().ok()).unwrap_or(1);
            let shape: &'static str = Box::leak(arg(&args, "--shape").unwrap_or("basic".into()).into_boxed_str());
            let trace = args.iter().any(|a| a == "--trace");
            common::install_panic_hook();
            common::install_logger(trace);
            let plan = wb_plan::generate(seed, &wb_plan::GenB { shape, thorough: args.iter().any(|a| a == "--thorough") });
            if args.iter().any(|a| a == "--plan") {
                println!("{}", plan.yaml());
                println!("{}", serde_json::to_string_pretty(&plan).unwrap());
            }
            interpose::arm_rng(seed);
            let res = std::thread::spawn(move || wb_exec::run_plan(&plan, &wb_exec::ExecB { trace })).join().unwrap();
            if trace {
                if let Some(l) = common::LOGGER.keep.lock().unwrap().as_ref() {
                    for x in l {
                        eprintln!("LOG {}", x);
                    }
                }
            }
            println!("{}", serde_json::to_string_pretty(&res).unwrap());
        }
        "check" => {
            let prop = args.get(2).cloned().unwrap_or_default();
            let tier = args.get(3).cloned().unwrap_or("quick".into());
            let seed: u64 = arg(&args, "--seed").and_then(|s| s.parse().ok()).or_else(|| std::env::var("VERIF_SEED").ok().and_then(|s| s.parse().ok())).unwrap_or(1);
            let dir = arg(&args, "--dir").unwrap_or("/verif".into());
            std::process::exit(check::run_check(&prop, &tier, seed, &dir));
        }
        "replay" => {
            std::process::exit(check::replay(&args.get(2).cloned().unwrap_or_default()));
        }
        "selftest" => {
            let world = arg(&args, "--world").unwrap_or("A".into());
            let shape: &'static str = Box::leak(arg(&args, "--shape").unwrap_or("mixed".into()).into_boxed_str());
            let n: u64 = arg(&args, "--n").and_then(|s| s.parse().ok()).unwrap_or(200);
            std::process::exit(check::selftest_determinism(&world, shape, n, 7));
        }
        "sweep" => {
            /* development aid: run a batch and print every violation kind with one example */
            let world = arg(&args, "--world").unwrap_or("A".into());
            let shape: &'static str = Box::leak(arg(&args, "--shape").unwrap_or("mixed".into()).into_boxed_str());
            let n: u64 = arg(&args, "--n").and_then(|s| s.parse().ok()).unwrap_or(1000);
            let base: u64 = arg(&args, "--seed").and_then(|s| s.parse().ok()).unwrap_or(1);
            let thorough = args.iter().any(|a| a == "--thorough");
            let jobs: Vec<supervisor::Job> = (0..n).map(|i| check::make_job(&world, shape, check::job_seed(base, "sweep", shape, i), thorough)).collect();
            let t = std::time::Instant::now();
            let outs = supervisor::run_jobs(&jobs, check::workers(), false, |_, _| {});
            let mut sum = supervisor::BatchSummary::new();
            let mut counts: std::collections::BTreeMap<String, u64> = Default::default();
            for (i, o) in outs.iter().enumerate() {
                sum.add(i, jobs[i].seed(), o);
                for v in supervisor::outcome_violations(&jobs[i], o) {
                    *counts.entry(v.kind).or_insert(0) += 1;
                }
            }
            println!("{} runs in {:.1}s, {} distinct nontrivial, sim {} s", n, t.elapsed().as_secs_f64(), sum.nontrivial, sum.sim_ms / 1000);
            for (k, (v, idx)) in &sum.by_kind {
                println!("== {} x{} (first: job {} seed {})\n   {}", k, counts[k], idx, jobs[*idx].seed(), v.detail.chars().take(700).collect::<String>());
            }
            println!("probes: {:?}", sum.probes);
            println!("faults: {:?}", sum.faults);
            println!("observations: {:?}", sum.observations);
            for e in &sum.harness_errors {
                println!("HARNESS ERROR: {}", e.chars().take(1500).collect::<String>());
            }
        }
        _ => {
            eprintln!("usage: esim run-a --seed N --shape S [--trace] [--plan]");
            std::process::exit(2);
        }
    }
}
