mod addr;
mod codec_dhcp;
mod common;
mod interpose;
mod kernel;
mod rng;
mod vfs;
mod wa_exec;
mod wa_plan;

fn arg(args: &[String], name: &str) -> Option<String> {
    args.iter().position(|a| a == name).and_then(|i| args.get(i + 1).cloned())
}

fn main() {
    let args: Vec<String> = std::env::args().collect();
    let cmd = args.get(1).map(|s| s.as_str()).unwrap_or("");
    match cmd {
        "run-a" => {
            let seed: u64 = arg(&args, "--seed").and_then(|s| s.parse().ok()).unwrap_or(1);
            let shape: &'static str = Box::leak(arg(&args, "--shape").unwrap_or("mixed".into()).into_boxed_str());
            let trace = args.iter().any(|a| a == "--trace");
            common::install_panic_hook();
            common::install_logger(trace);
            vfs::register();
            let plan = wa_plan::generate(seed, &wa_plan::GenOpts { shape, thorough: false });
            if args.iter().any(|a| a == "--plan") {
                println!("{}", serde_json::to_string_pretty(&plan).unwrap());
            }
            let res = std::thread::spawn(move || wa_exec::run_plan(&plan, &wa_exec::ExecOpts { trace, only: None })).join().unwrap();
            if trace {
                if let Some(l) = common::LOGGER.keep.lock().unwrap().as_ref() {
                    for x in l {
                        eprintln!("LOG {}", x);
                    }
                }
            }
            println!("{}", serde_json::to_string_pretty(&res).unwrap());
        }
        _ => {
            eprintln!("usage: esim run-a --seed N --shape S [--trace] [--plan]");
            std::process::exit(2);
        }
    }
}
