//! `esim check <property> <tier>`: the registered checks.

use crate::supervisor::*;
use std::collections::BTreeMap;
use std::time::Instant;

pub struct Batch {
    pub world: &'static str,
    pub shape: &'static str,
    pub quick: u64,
    pub thorough: u64,
}

const fn b(world: &'static str, shape: &'static str, quick: u64, thorough: u64) -> Batch {
    Batch { world, shape, quick, thorough }
}

/// Every oracle of a world runs in every run of that world, so each check also takes a
/// small batch of every other shape of its world(s): a defect that one property's own
/// shapes cannot reach may still break that property in a shape built for another.
pub fn batches(prop: &str) -> Vec<Batch> {
    const A_SHAPES: &[&str] = &["mixed", "concurrent", "restart", "crash", "poolchange", "roam", "rhythm", "growth", "wire", "listing", "hostile", "drain", "restart-pair", "images", "acl-http"];
    const B_SHAPES: &[&str] = &["pipeline", "tcpidle", "basic", "faulty", "idreuse", "burst", "sizes", "large", "routes", "cache", "acl", "hostile", "flood", "cookie"];
    let mut v = own_batches(prop);
    let in_a = matches!(prop, "C01" | "C02" | "C09" | "C10" | "C12" | "C13" | "C18" | "C20" | "C08" | "C05");
    let in_b = matches!(prop, "C03" | "C04" | "C06" | "C07" | "C08" | "C14" | "C15" | "C16" | "C05");
    if in_a {
        for s in A_SHAPES {
            if !v.iter().any(|b| b.world == "A" && b.shape == *s) {
                v.push(b("A", s, 150, 8_000));
            }
        }
    }
    if in_b {
        for s in B_SHAPES {
            if !v.iter().any(|b| b.world == "B" && b.shape == *s) {
                v.push(b("B", s, if *s == "large" || *s == "burst" { 60 } else { 150 }, 8_000));
            }
        }
    }
    v
}

fn own_batches(prop: &str) -> Vec<Batch> {
    match prop {
        "C01" => vec![b("A", "mixed", 2500, 120_000), b("A", "concurrent", 1000, 60_000), b("A", "restart", 500, 60_000), b("A", "crash", 300, 30_000), b("A", "poolchange", 1000, 60_000)],
        "C02" => vec![b("A", "mixed", 1500, 60_000), b("A", "drain", 400, 20_000), b("A", "drain-large", 8, 400)],
        "C09" => vec![b("A", "mixed", 3000, 200_000), b("A", "roam", 1000, 60_000), b("A", "poolchange", 2000, 100_000)],
        "C10" => vec![b("A", "mixed", 2500, 150_000), b("A", "rhythm", 800, 60_000), b("A", "growth", 1200, 80_000)],
        "C12" => vec![b("A", "wire", 2500, 150_000), b("A", "mixed", 800, 50_000)],
        "C13" => vec![b("A", "mixed", 3000, 200_000), b("A", "restart", 500, 40_000)],
        "C20" => vec![b("A", "listing", 2000, 100_000)],
        "C18" => vec![b("A", "crash", 1500, 100_000), b("A", "restart-pair", 1000, 60_000), b("A", "images", 600, 30_000)],
        "C05" => vec![b("A", "hostile", 3000, 200_000), b("B", "hostile", 2500, 150_000), b("C", "hostile", 2500, 150_000)],
        "C08" => vec![b("A", "acl-http", 2000, 100_000), b("B", "acl", 2500, 100_000)],
        "C03" => vec![b("B", "basic", 2500, 120_000), b("B", "sizes", 1500, 60_000), b("B", "faulty", 1500, 60_000), b("B", "cache", 800, 30_000)],
        "C04" => vec![b("B", "sizes", 3000, 120_000), b("B", "large", 400, 20_000), b("B", "basic", 1500, 60_000)],
        "C06" => vec![b("B", "cache", 3000, 150_000)],
        "C07" => vec![b("B", "basic", 2000, 100_000), b("B", "faulty", 3000, 150_000), b("B", "burst", 800, 40_000), b("B", "sizes", 800, 40_000), b("B", "idreuse", 600, 40_000), b("B", "tcpidle", 1000, 60_000), b("B", "pipeline", 800, 40_000)],
        "C14" => vec![b("B", "large", 500, 20_000), b("B", "sizes", 2000, 80_000), b("B", "hostile", 1200, 50_000)],
        "C15" => vec![b("B", "routes", 3000, 160_000), b("B", "basic", 1000, 40_000)],
        "C16" => vec![b("B", "flood", 1200, 60_000), b("B", "cookie", 1200, 60_000), b("B", "manyflood", 100, 4_000)],
        _ => vec![],
    }
}

/// Rare conditions each check is expected to reach; they are listed in the evidence
/// with a count of zero when a batch never got there.
pub fn expected_probes(prop: &str) -> &'static [&'static str] {
    match prop {
        "C01" => &["C01.expired_lease_reissued_to_other", "C09.client_holds_several_leases", "C18.recovered_after_kill", "config.swapped_live", "clock.backward_step", "restart.clean"],
        "C02" => &["C02.pool_drained", "C02.last_host_address_issued", "C02.reserved_host_served", "C02.nested_policy_tree", "C02.policy_with_match_option", "C02.request_options_select_the_pool", "C02.request_names_reserved_address", "C09.refused_no_address"],
        "C09" => &["C09.client_holds_several_leases", "C09.refused_no_address", "config.swapped_live", "clock.backward_step"],
        "C10" => &["C10.clamped_at_max", "C10.clamped_at_min", "clock.backward_step", "restart.clean"],
        "C12" => &["C12.broadcast_bit_set", "C12.other_flag_bits_set", "C12.tracer_option_over_255", "C12.request_with_split_options"],
        "C13" => &["C13.message_meant_for_this_server_got_no_reply", "C13.foreign_server_id", "C13.decline_or_release_for_held_address", "restart.clean"],
        "C18" => &["C18.crash_during_boot", "C18.recovered_after_kill", "C18.image_v0", "C18.image_v0_without_version_row", "C18.image_v0_without_version_table", "C18.image_newer_schema", "C18.newer_schema_refused", "C18.restart_pair_compared", "C18.crash_after_write:leases.sqlite", "C18.crash_after_sync:leases.sqlite", "C18.crash_after_write:leases.sqlite-journal", "C18.crash_after_delete:leases.sqlite-journal"],
        "C20" => &["C20.listing_of_empty_store", "C20.gauges_of_empty_store", "C20.all_leases_expired", "C20.scrape_in_the_second_of_an_expiry", "C20.scrape_one_second_before_an_expiry", "C20.scrape_one_second_after_an_expiry", "C20.gauges_judged_exactly_at_an_expiry_second"],
        "C05" => &["C05.liveness_probe_after_hostile_input", "C05.router_solicitation_probe", "C05.unsolicited_advertisement_seen"],
        "C08" => &["C08.dns_query_that_must_be_refused", "C08.http_over_unix_socket", "C08.http_request_that_must_be_granted", "C08.http_request_that_must_be_refused", "C08.ipv4_client_on_dual_stack_listener"],
        "C03" => &["C03.complete_relayed_answer", "C06.served_from_cache", "C04.truncated_response"],
        "C04" => &["C04.truncated_response", "C14.response_over_16k", "C14.many_compression_pointers"],
        "C06" => &["C06.served_from_cache", "C06.hit_exactly_at_ttl", "C06.query_aimed_at_ttl_boundary", "C06.near_miss_key_in_same_run", "C06.repeated_key_resolved_upstream"],
        "C07" => &["C07.response_from_per_address_socket_of_bind_addresses_interfaces", "C07.several_queries_on_one_client_connection", "C07.upstream_connection_died_inside_the_second_of_two_pipelined_replies", "C07.query_aimed_at_upstream_tcp_idle_timers", "C07.several_responses_seen", "C07.servfail_after_fault", "C07.query_to_secondary_local_address", "C07.response_sent_from_ipv4_only_listener", "in.udp.no_socket"],
        "C14" => &["C14.response_over_16k", "C14.many_compression_pointers", "C14.name_expanded_through_more_than_10_pointers_in_a_row", "C14.name_expanded_through_more_than_60_pointers_in_a_row", "C14.hostile_reply_accepted_and_relayed", "C14.label_of_62_or_63_octets_relayed", "C14.flowing_message_refused_by_decoder", "C14.flowing_message_survives_encode_decode"],
        "C15" => &["C15.forge_nxdomain_route", "C15.forward_route", "C15.no_route", "C15.no_recursion_desired_on_forward_route"],
        "C16" => &[
            "C16.flood_of_100_or_more",
            "C16.quiet_source_probe",
            "C16.server_cookie_learnt",
            "C16.refused_sent_to_cookie_holder",
            "C16.invalid_cookie_flood_partly_unanswered",
            "C16.cookie_case.valid",
            "C16.cookie_case.other_client_address",
            "C16.cookie_case.other_server_address",
            "C16.cookie_case.other_client_cookie",
            "C16.cookie_case.forged",
            "C16.cookie_case.two_key_rotations_old",
            "C16.cookie_case.valid_prefix_only",
            "C16.cookie_case.valid_plus_extra_octets",
            "C16.cookie_case.forged_under_all_zero_key",
            "C16.fresh_source_probes_while_many_others_flood",
            "C16.flooder_probes_again_after_everybody_was_silent",
        ],
        _ => &[],
    }
}

pub fn make_job(world: &str, shape: &'static str, seed: u64, thorough: bool) -> Job {
    match world {
        "A" => Job::A(crate::wa_plan::generate(seed, &crate::wa_plan::GenOpts { shape, thorough })),
        "C" => Job::C(crate::wc::generate(seed, thorough)),
        "B" => Job::B(crate::wb_plan::generate(seed, &crate::wb_plan::GenB { shape, thorough })),
        _ => unreachable!(),
    }
}

pub fn job_seed(base: u64, prop: &str, shape: &str, i: u64) -> u64 {
    crate::rng::mix64(base ^ crate::rng::hash_str(prop).rotate_left(13) ^ crate::rng::hash_str(shape).rotate_left(29) ^ crate::rng::mix64(i))
}

fn sample_of(job: &Job) -> serde_json::Value {
    let v = serde_json::to_value(job).unwrap();
    /* keep samples readable: cut long step lists */
    match job {
        Job::A(p) => serde_json::json!({
            "world": "A", "seed": p.seed, "shape": p.shape,
            "lans": p.lans.iter().map(|l| format!("{} {}/{}", l.name, l.server_ip, l.plen)).collect::<Vec<_>>(),
            "config": p.configs[0].yaml(),
            "clients": p.clients.len(),
            "first_steps": v["A"]["steps"].as_array().map(|a| a.iter().take(6).cloned().collect::<Vec<_>>()),
            "steps": p.steps.len(),
        }),
        Job::C(p) => serde_json::json!({
            "world": "C", "seed": p.seed, "ra_config": p.ra_config, "steps": p.steps.len(),
            "first_steps": v["C"]["steps"].as_array().map(|a| a.iter().take(4).cloned().collect::<Vec<_>>()),
        }),
        Job::B(p) => serde_json::json!({
            "world": "B", "seed": p.seed, "shape": p.shape,
            "config": p.yaml(),
            "upstreams": p.upstreams, "upstream_tcp": p.upstream_tcp,
            "queries": p.queries.len(),
            "first_queries": v["B"]["queries"].as_array().map(|a| a.iter().take(3).cloned().collect::<Vec<_>>()),
            "knobs": {"yield_p": p.yield_p, "out_loss_p": p.out_loss_p, "out_dup_p": p.out_dup_p, "qid_bits": p.qid_bits, "sndbuf": p.sndbuf, "max_seg": p.max_seg},
        }),
    }
}

pub fn workers() -> usize {
    std::env::var("ESIM_WORKERS").ok().and_then(|s| s.parse().ok()).unwrap_or_else(|| std::thread::available_parallelism().map(|n| n.get()).unwrap_or(8))
}

pub fn real_stub() -> serde_json::Value {
    serde_json::json!({
        "real_code": ["erbium-core (dhcp, pool, http via hyper, dns, radv, lldp, config loader, acl)", "erbium-net socket/udp/raw/addr/packet above the system call line", "rusqlite + system SQLite (pager, journal, recovery)", "hyper", "tokio runtime/timers/sync", "rand", "prometheus"],
        "stubs": ["Linux socket layer (simulated kernel in /verif/sim/src/kernel.rs)", "netlink interface table (SharedNetInfo::new_sim)", "SQLite VFS (simulated disk)", "clock_gettime / getrandom (interposed)", "DHCP/DNS/HTTP clients, relays and upstream servers (actors with independent codecs)"]
    })
}

pub fn run_check(prop: &str, tier: &str, base_seed: u64, verif_dir: &str) -> i32 {
    let t_start = Instant::now();
    let thorough = tier == "thorough";
    let bs = batches(prop);
    if bs.is_empty() {
        eprintln!("harness error: no check is built for {}", prop);
        return 2;
    }
    /* thorough batches are sized for 10-20 minutes on 16 workers */
    let scale: f64 = std::env::var("ESIM_SCALE").ok().and_then(|s| s.parse().ok()).unwrap_or(1.0) * if thorough { 0.75 } else { 3.0 };
    let findings = load_findings(&format!("{}/known_findings.json", verif_dir));
    /* the job list is described, not materialised: thorough tiers run millions of plans */
    #[derive(Clone)]
    enum Desc {
        Gen { world: &'static str, shape: &'static str, i: u64 },
        Crash { base: usize, k: u64 },
    }
    let mut descs: Vec<Desc> = vec![];
    let mut batch_sizes: Vec<usize> = vec![];
    for batch in &bs {
        let n = ((if thorough { batch.thorough } else { batch.quick }) as f64 * scale).ceil() as u64;
        batch_sizes.push(n as usize);
        for i in 0..n {
            descs.push(Desc::Gen { world: batch.world, shape: batch.shape, i });
        }
    }
    let w = workers();
    let mut enumerated: Vec<serde_json::Value> = vec![];
    let mut bases: Vec<Job> = vec![];
    if prop == "C18" {
        /* crash-point enumeration: for each small history, one run per mutating disk
         * call k = 1..K (K measured by an uninterrupted run of the same plan) */
        let nh = ((if thorough { 400.0 } else { 16.0 }) * scale).ceil() as u64;
        bases = (0..nh).map(|i| make_job("A", "cp-history", job_seed(base_seed, prop, "cp-history", i), thorough)).collect();
        let base_outs = run_jobs(&bases, w, false, |_, _| {});
        for (i, o) in base_outs.iter().enumerate() {
            if let (Outcome::Done(r), Job::A(p)) = (o, &bases[i]) {
                let k_max = r.disk_calls;
                enumerated.push(serde_json::json!({"seed": p.seed, "image": p.image.as_ref().map(|x| format!("{:?}", x).chars().take(40).collect::<String>()), "steps": p.steps.len(), "disk_calls_K": k_max, "crash_points_run": k_max}));
                for k in 1..=k_max {
                    descs.push(Desc::Crash { base: i, k });
                }
            }
        }
    }
    let materialise = |d: &Desc| -> Job {
        match d {
            Desc::Gen { world, shape, i } => make_job(world, shape, job_seed(base_seed, prop, shape, *i), thorough),
            Desc::Crash { base, k } => {
                let Job::A(p) = &bases[*base] else { unreachable!() };
                let mut q = p.clone();
                q.crash_at_total = Some(*k);
                q.shape = "crashpoint".into();
                Job::A(q)
            }
        }
    };
    /* determinism self-test: a sample of this check's own seeds is executed a second
     * time in other children (at another worker count); the complete event-log hash,
     * event count and violations must be identical */
    let det;
    {
        let per = if thorough { 300 } else { 24 };
        let mut sample: Vec<Job> = vec![];
        let mut off = 0usize;
        for n in &batch_sizes {
            sample.extend(descs[off..off + (*n).min(per)].iter().map(&materialise));
            off += n;
        }
        let a = run_jobs(&sample, w, false, |_, _| {});
        let b = run_jobs(&sample, (w / 3).max(1), false, |_, _| {});
        let mut bad = vec![];
        for i in 0..sample.len() {
            let f = |o: &Outcome| match o {
                Outcome::Done(r) => format!("{}:{}:{:?}", r.event_hash, r.events, r.violations.iter().map(|v| &v.kind).collect::<Vec<_>>()),
                Outcome::Died(x) => x.clone(),
            };
            if f(&a[i]) != f(&b[i]) {
                bad.push(format!("seed {}: {} vs {}", sample[i].seed(), f(&a[i]), f(&b[i])));
            }
        }
        det = serde_json::json!({"seeds": sample.len(), "executions_each": 2, "worker_counts": [w, (w / 3).max(1)], "differing": bad.len()});
        if !bad.is_empty() {
            for x in bad.iter().take(5) {
                eprintln!("harness error: nondeterminism: {}", x);
            }
            return 2;
        }
    }
    let mut sum = BatchSummary::new();
    let mut first_job: BTreeMap<String, Job> = BTreeMap::new();
    let mut sample_idx: Vec<usize> = vec![];
    {
        let sum_ref = &mut sum;
        let first_ref = &mut first_job;
        let samples_ref = &mut sample_idx;
        let make = |i: usize| materialise(&descs[i]);
        let seed_of = |i: usize| match &descs[i] {
            Desc::Gen { shape, i, .. } => job_seed(base_seed, prop, shape, *i),
            Desc::Crash { base, .. } => bases[*base].seed(),
        };
        crate::supervisor::run_lazy(descs.len(), &make, w, false, |i, o| {
            sum_ref.add(i, seed_of(i), &o);
            for v in crate::supervisor::outcome_violations_seed(seed_of(i), &o) {
                first_ref.entry(v.kind.clone()).or_insert_with(|| make(i));
            }
            if samples_ref.len() < 3 {
                if let Outcome::Done(r) = &o {
                    if r.nontrivial {
                        samples_ref.push(i);
                    }
                }
            }
        });
    }
    sample_idx.sort();
    for i in sample_idx {
        sum.samples.push(sample_of(&materialise(&descs[i])));
    }
    if sum.samples.is_empty() {
        sum.samples.push(sample_of(&materialise(&descs[0])));
    }

    /* triage the violations of *this* property */
    let mut exit = 0;
    let mut violations = 0;
    let mut known_lines = vec![];
    let mut other_props: BTreeMap<String, String> = BTreeMap::new();
    let kinds: Vec<(String, (crate::common::Violation, usize))> = sum.by_kind.iter().map(|(k, v)| (k.clone(), v.clone())).collect();
    for (kind, (v, idx)) in kinds {
        if v.property != prop {
            other_props.insert(kind, v.property.clone());
            continue;
        }
        if let Some(f) = match_finding(&findings, &v) {
            known_lines.push(format!("KNOWN-FINDING: property={} {} [{}]", prop, f.what, kind));
            continue;
        }
        violations += 1;
        exit = 1;
        let _ = idx;
        let small = minimise(&first_job[&kind], &kind, if thorough { 120 } else { 40 }, w);
        let final_out = run_jobs(&[small.clone()], 1, false, |_, _| {});
        let (detail, hash) = match &final_out[0] {
            Outcome::Done(r) => (r.violations.iter().find(|x| x.kind == kind).map(|x| x.detail.clone()).unwrap_or(v.detail.clone()), r.event_hash.clone()),
            Outcome::Died(w) => (w.clone(), String::new()),
        };
        let dir = format!("{}/replays", verif_dir);
        let _ = std::fs::create_dir_all(&dir);
        let path = format!("{}/{}-{}-{:016x}.json", dir, prop, kind.replace(|c: char| !c.is_ascii_alphanumeric() && c != '.' && c != '_', "_"), small.seed());
        let rep = Replay { property: prop.into(), kind: kind.clone(), detail: detail.clone(), event_hash: hash, job: small };
        std::fs::write(&path, serde_json::to_vec_pretty(&rep).unwrap()).unwrap();
        println!("violation kind={} detail={}", kind, detail.chars().take(600).collect::<String>());
        println!("VIOLATION property={} replay={}", prop, path);
    }
    known_lines.sort();
    known_lines.dedup();
    for l in &known_lines {
        println!("{}", l);
    }
    if !sum.harness_errors.is_empty() {
        for e in &sum.harness_errors {
            eprintln!("harness error: {}", e.chars().take(800).collect::<String>());
        }
        if exit == 0 {
            exit = 2;
        }
    }

    let wall = t_start.elapsed().as_secs_f64();
    let level = if prop == "C18" { "fault_enumeration" } else { "exploration" };
    for pn in expected_probes(prop) {
        sum.probes.entry(pn.to_string()).or_insert(0);
    }
    let zero_probes: Vec<&String> = sum.probes.iter().filter(|(_, v)| **v == 0).map(|(k, _)| k).collect();
    let ev = serde_json::json!({
        "property_id": prop,
        "tier": tier,
        "seed": base_seed,
        "level": level,
        "coverage": {
            "evaluations": sum.evaluations,
            "distinct_nontrivial": sum.nontrivial,
            "rule": "one evaluation = one simulated execution of the whole service under one seed (plan = generate(seed)); a run is non-trivial when at least one property-relevant observation was made (a reply decoded, a listing fetched, a recovery performed); distinct = distinct hashes of the complete kernel+disk event log among the non-trivial runs",
            "samples": sum.samples,
            "batches": bs.iter().map(|b| serde_json::json!({"world": b.world, "shape": b.shape, "runs": ((if thorough { b.thorough } else { b.quick }) as f64 * scale).ceil() as u64})).collect::<Vec<_>>(),
            "runs_per_hour": (sum.evaluations as f64 / wall.max(0.001) * 3600.0) as u64,
            "simulated_seconds": sum.sim_ms / 1000,
            "kernel_events": sum.events,
            "faults_fired": sum.faults,
            "probes_hit": sum.probes,
            "probes_at_zero": zero_probes,
            "observations": sum.observations,
            "known_findings_seen": known_lines,
            "determinism_selftest": det,
            "crash_point_enumeration": if prop == "C18" { serde_json::json!({"exhaustive_per_history": true, "model": "process kill just before the k-th mutating VFS call (create/write/truncate/sync/delete); page cache survives", "histories": enumerated.iter().take(40).collect::<Vec<_>>(), "histories_total": enumerated.len()}) } else { serde_json::Value::Null },
            "violations_of_other_properties_seen_and_ignored_here": other_props,
            "components": real_stub(),
            "workers": w,
            "build_profile": "opt-level=2, overflow-checks=on, debug-assertions=on, --cfg erbium_verif",
        },
        "assumptions": [
            "the simulated kernel's socket rules (pktinfo presence, dual-stack mapping, ipi_spec_dst locality, AF_PACKET framing) match Linux",
            "a clean batch is evidence over the seeds explored, not a proof",
            "interleavings are explored at the granularity of intercepted I/O and tokio::sync lock operations on a single-threaded runtime",
        ],
        "wall_s": wall,
        "violations": violations,
    });
    let _ = std::fs::create_dir_all(format!("{}/evidence", verif_dir));
    std::fs::write(format!("{}/evidence/{}.json", verif_dir, prop), serde_json::to_vec_pretty(&ev).unwrap()).unwrap();
    println!(
        "{} {}: {} runs ({} distinct non-trivial) in {:.1}s, {} violation kind(s), {} known finding(s)",
        prop, tier, sum.evaluations, sum.nontrivial, wall, violations, known_lines.len()
    );
    exit
}

pub fn replay(path: &str) -> i32 {
    let rep: Replay = match std::fs::read(path).ok().and_then(|b| serde_json::from_slice(&b).ok()) {
        Some(r) => r,
        None => {
            eprintln!("harness error: cannot read replay file {}", path);
            return 2;
        }
    };
    let outs = run_jobs(&[rep.job.clone()], 1, true, |_, _| {});
    let vs = outcome_violations(&rep.job, &outs[0]);
    if let Outcome::Done(r) = &outs[0] {
        if let Some(t) = &r.trace {
            for l in t {
                println!("  {}", l);
            }
        }
        println!("event-log hash {} (recorded {})", r.event_hash, rep.event_hash);
    }
    match vs.iter().find(|v| v.kind == rep.kind) {
        Some(v) => {
            println!("reproduced {}: {}", v.kind, v.detail);
            println!("VIOLATION property={} replay={}", rep.property, path);
            1
        }
        None => {
            println!("not reproduced; violations now: {:?}", vs.iter().map(|v| &v.kind).collect::<Vec<_>>());
            0
        }
    }
}

/// Determinism self-test: every seed twice, in different children.
pub fn selftest_determinism(world: &str, shape: &'static str, n: u64, base: u64) -> i32 {
    let jobs: Vec<Job> = (0..n).map(|i| make_job(world, shape, job_seed(base, "selftest", shape, i), false)).collect();
    let a = run_jobs(&jobs, workers(), false, |_, _| {});
    let b = run_jobs(&jobs, 1.max(workers() / 4), false, |_, _| {});
    let mut bad = 0;
    for i in 0..jobs.len() {
        let (ha, hb) = match (&a[i], &b[i]) {
            (Outcome::Done(x), Outcome::Done(y)) => (format!("{}:{}:{:?}", x.event_hash, x.events, x.violations), format!("{}:{}:{:?}", y.event_hash, y.events, y.violations)),
            (Outcome::Died(x), Outcome::Died(y)) => (x.clone(), y.clone()),
            _ => ("done".into(), "died".into()),
        };
        if ha != hb {
            bad += 1;
            if bad <= 5 {
                eprintln!("nondeterminism: seed {} -> {} vs {}", jobs[i].seed(), ha, hb);
            }
        }
    }
    println!("determinism {} {}: {} seeds x 2 executions, {} differ", world, shape, n, bad);
    if bad > 0 { 2 } else { 0 }
}
