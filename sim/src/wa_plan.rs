//! World A (the DHCP host): plan data, seeded plan generation and the
//! reference model of which addresses erbium.conf(5) grants to whom.

use crate::rng::Rng;
use serde::{Deserialize, Serialize};
use std::collections::BTreeSet;
use std::net::Ipv4Addr;

#[derive(Clone, Debug, Serialize, Deserialize)]
pub struct Lan {
    pub ifidx: u32,
    pub name: String,
    pub server_ip: Ipv4Addr,
    pub plen: u8,
    pub mac: [u8; 6],
    pub mtu: u32,
}

impl Lan {
    pub fn mask(&self) -> u32 {
        mask(self.plen)
    }
    pub fn network(&self) -> u32 {
        u32::from(self.server_ip) & self.mask()
    }
    pub fn broadcast(&self) -> u32 {
        self.network() | !self.mask()
    }
}

pub fn mask(plen: u8) -> u32 {
    if plen == 0 { 0 } else { !0u32 << (32 - plen as u32) }
}

/// host addresses of a prefix: everything but the first and the last address
pub fn hosts(net: u32, plen: u8) -> BTreeSet<u32> {
    let n = net & mask(plen);
    let b = n | !mask(plen);
    ((n + 1)..b).collect()
}

#[derive(Clone, Debug, Default, Serialize, Deserialize)]
pub struct PolicyM {
    pub match_subnet: Option<(Ipv4Addr, u8)>,
    pub match_chaddr: Option<Vec<u8>>,
    pub apply_subnet: Vec<(Ipv4Addr, u8)>,
    pub apply_range: Vec<(Ipv4Addr, Ipv4Addr)>,
    pub apply_address: Vec<Ipv4Addr>,
    pub policies: Vec<PolicyM>,
}

impl PolicyM {
    fn has_conditions(&self) -> bool {
        self.match_subnet.is_some() || self.match_chaddr.is_some()
    }
    fn has_addresses(&self) -> bool {
        !self.apply_subnet.is_empty() || !self.apply_range.is_empty() || !self.apply_address.is_empty()
    }
    /// every address written in this policy or any policy below it
    fn all_used(&self) -> BTreeSet<u32> {
        let mut s = self.written();
        for p in &self.policies {
            s.extend(p.all_used());
        }
        s
    }
    fn written(&self) -> BTreeSet<u32> {
        let mut s = BTreeSet::new();
        for (a, l) in &self.apply_subnet {
            s.extend(hosts(u32::from(*a), *l));
        }
        for (a, b) in &self.apply_range {
            s.extend(u32::from(*a)..=u32::from(*b));
        }
        for a in &self.apply_address {
            s.insert(u32::from(*a));
        }
        s
    }
    /// this policy's own pool: what it writes minus what its sub-policies claim
    fn own_pool(&self) -> BTreeSet<u32> {
        let mut s = self.written();
        for p in &self.policies {
            for a in p.all_used() {
                s.remove(&a);
            }
        }
        s
    }
    fn conditions_hold(&self, chaddr: &[u8], server_ip: Ipv4Addr) -> bool {
        if let Some((n, l)) = self.match_subnet {
            if u32::from(server_ip) & mask(l) != u32::from(n) & mask(l) {
                return false;
            }
        }
        if let Some(m) = &self.match_chaddr {
            if m.as_slice() != chaddr {
                return false;
            }
        }
        true
    }
    fn matches(&self, chaddr: &[u8], server_ip: Ipv4Addr) -> bool {
        if self.has_conditions() {
            self.conditions_hold(chaddr, server_ip)
        } else {
            self.policies.iter().any(|p| p.matches(chaddr, server_ip))
        }
    }
    fn yaml(&self, indent: usize, out: &mut String) {
        let pad = " ".repeat(indent);
        let mut first = true;
        let mut line = |out: &mut String, s: String| {
            if first {
                out.push_str(&format!("{}- {}\n", " ".repeat(indent - 2), s));
                first = false;
            } else {
                out.push_str(&format!("{}{}\n", pad, s));
            }
        };
        if let Some((n, l)) = self.match_subnet {
            line(out, format!("match-subnet: {}/{}", n, l));
        }
        if let Some(m) = &self.match_chaddr {
            line(out, format!("match-hardware-address: \"{}\"", m.iter().map(|b| format!("{:02x}", b)).collect::<Vec<_>>().join(":")));
        }
        /* YAML hashes cannot repeat a key: at most one of each apply-* is written */
        for (a, l) in self.apply_subnet.iter().take(1) {
            line(out, format!("apply-subnet: {}/{}", a, l));
        }
        for (a, b) in self.apply_range.iter().take(1) {
            line(out, format!("apply-range: {{ start: {}, end: {} }}", a, b));
        }
        for a in self.apply_address.iter().take(1) {
            line(out, format!("apply-address: {}", a));
        }
        if !self.policies.is_empty() {
            line(out, "policies:".to_string());
            for p in &self.policies {
                p.yaml(indent + 4, out);
            }
        }
        if first {
            /* an entirely empty policy: write it as an empty hash */
            out.push_str(&format!("{}- {{}}\n", " ".repeat(indent - 2)));
        }
    }
}

fn eval_policies(ps: &[PolicyM], chaddr: &[u8], server_ip: Ipv4Addr, inherited: Option<BTreeSet<u32>>) -> Option<Option<BTreeSet<u32>>> {
    for p in ps {
        if p.matches(chaddr, server_ip) {
            let pool = if p.has_addresses() { Some(p.own_pool()) } else { inherited.clone() };
            if let Some(sub) = eval_policies(&p.policies, chaddr, server_ip, pool.clone()) {
                return Some(sub);
            }
            return Some(pool);
        }
    }
    None
}

#[derive(Clone, Debug, Serialize, Deserialize)]
pub struct ConfModel {
    /// top-level `addresses`, as written (host bits may be set)
    pub addresses: Vec<(Ipv4Addr, u8)>,
    pub policies: Vec<PolicyM>,
    pub captive_portal: Option<String>,
    pub dns_search: Vec<String>,
    pub api_listeners: Vec<String>,
    pub acls: Option<Vec<AclM>>,
}

#[derive(Clone, Debug, Serialize, Deserialize)]
pub struct AclM {
    pub subnets: Option<Vec<String>>,
    pub unix: Option<bool>,
    pub access: Vec<String>,
}

impl ConfModel {
    pub fn yaml(&self) -> String {
        let mut s = String::from("---\n");
        if !self.addresses.is_empty() {
            s.push_str(&format!(
                "addresses: [{}]\n",
                self.addresses.iter().map(|(a, l)| format!("{}/{}", a, l)).collect::<Vec<_>>().join(", ")
            ));
        }
        if let Some(cp) = &self.captive_portal {
            s.push_str(&format!("captive-portal: \"{}\"\n", cp));
        }
        if !self.dns_search.is_empty() {
            s.push_str(&format!(
                "dns-search: [{}]\n",
                self.dns_search.iter().map(|d| format!("\"{}\"", d)).collect::<Vec<_>>().join(", ")
            ));
        }
        s.push_str(&format!(
            "api-listeners: [{}]\n",
            self.api_listeners.iter().map(|d| format!("\"{}\"", d)).collect::<Vec<_>>().join(", ")
        ));
        if let Some(acls) = &self.acls {
            s.push_str("acls:\n");
            for a in acls {
                let mut parts = vec![];
                if let Some(sn) = &a.subnets {
                    parts.push(format!("match-subnets: [{}]", sn.iter().map(|x| format!("\"{}\"", x)).collect::<Vec<_>>().join(", ")));
                }
                if let Some(u) = a.unix {
                    parts.push(format!("match-unix: {}", u));
                }
                parts.push(format!("apply-access: [{}]", a.access.iter().map(|x| format!("\"{}\"", x)).collect::<Vec<_>>().join(", ")));
                s.push_str(&format!("  - {{ {} }}\n", parts.join(", ")));
            }
        }
        if !self.policies.is_empty() {
            s.push_str("dhcp-policies:\n");
            for p in &self.policies {
                p.yaml(4, &mut s);
            }
        }
        s
    }

    /// D(config, client, interface): the documented address set, or None if
    /// the documentation says this client is not served at all.
    pub fn allowed(&self, chaddr: &[u8], lan: &Lan) -> Option<BTreeSet<u32>> {
        let mut used = BTreeSet::new();
        for p in &self.policies {
            used.extend(p.all_used());
        }
        let mut base: Option<BTreeSet<u32>> = None;
        for (a, l) in &self.addresses {
            if u32::from(*a) & mask(*l) == u32::from(lan.server_ip) & mask(*l) {
                let mut h = hosts(u32::from(*a), *l);
                for u in &used {
                    h.remove(u);
                }
                base = Some(h);
                break;
            }
        }
        let pool = match eval_policies(&self.policies, chaddr, lan.server_ip, base.clone()) {
            Some(p) => p,
            None => base,
        };
        pool.map(|mut p| {
            /* never the server's own address on the receiving interface */
            p.remove(&u32::from(lan.server_ip));
            p
        })
    }
}

#[derive(Clone, Debug, Serialize, Deserialize)]
pub struct ClientSpec {
    pub chaddr: Vec<u8>, /* hlen octets */
    pub client_id: Option<Vec<u8>>,
    pub hostname: Option<Vec<u8>>,
    pub lan: usize,
}

impl ClientSpec {
    pub fn identity(&self, with_client_id: bool) -> Vec<u8> {
        match (&self.client_id, with_client_id) {
            (Some(id), true) => id.clone(),
            _ => self.chaddr.clone(),
        }
    }
}

#[derive(Clone, Debug, Serialize, Deserialize, PartialEq)]
pub enum AddrRef {
    None,
    Fixed(Ipv4Addr),
    LastOffered,
    LastAcked,
}

#[derive(Clone, Debug, Serialize, Deserialize, PartialEq)]
pub enum SidRef {
    FromLastReply,
    ThisIface,
    OtherIface,
    Foreign(Ipv4Addr),
}

#[derive(Clone, Debug, Serialize, Deserialize)]
pub struct MsgSpec {
    pub client: usize,
    pub lan: usize,
    pub mtype: Option<u8>,
    pub ciaddr: AddrRef,
    pub requested: AddrRef,
    pub server_id: Option<SidRef>,
    pub flags: u16,
    pub giaddr: Option<Ipv4Addr>,
    pub with_client_id: bool,
    pub with_hostname: bool,
    pub param_list: Vec<u8>,
    pub extra: Vec<(u8, Vec<u8>)>,
    pub xid: u32,
}

#[derive(Clone, Debug, Serialize, Deserialize)]
pub enum HttpVia {
    Tcp4,
    Tcp6,
    UnixPath,
    UnixAbstract,
    UnixUnnamed,
}

#[derive(Clone, Debug, Serialize, Deserialize)]
pub enum StepKind {
    Dhcp(MsgSpec),
    /// raw octets delivered to UDP port 67 on a LAN (hostile input)
    Raw { lan: usize, data: Vec<u8> },
    /// the wall clock jumps (NTP step, suspend/resume)
    ClockJump(i64),
    /// clean restart, optionally into another configuration
    Restart { cfg: usize },
    /// the operator's configuration is swapped in the running process
    SwapConfig { cfg: usize },
    /// kill the process just before its k-th mutating disk call from now
    CrashAtCall(u64),
    /// the k-th mutating disk call from now fails
    DiskFault { k: u64, full: bool },
    Http { path: String, via: HttpVia, from: String },
}

#[derive(Clone, Debug, Serialize, Deserialize)]
pub struct Step {
    pub at_ms: u64,
    pub kind: StepKind,
}

#[derive(Clone, Debug, Serialize, Deserialize)]
pub struct PlanA {
    pub seed: u64,
    pub shape: String,
    pub lans: Vec<Lan>,
    pub configs: Vec<ConfModel>,
    pub clients: Vec<ClientSpec>,
    pub steps: Vec<Step>,
    pub wall_base: i64,
    pub yield_p: f64,
    pub spurious_p: f64,
    pub eintr_p: f64,
    /// rows placed in the store before first boot: (address, clientid, start, expiry)
    pub prefill: Vec<(Ipv4Addr, Vec<u8>, i64, i64)>,
}

pub struct GenOpts {
    pub shape: &'static str,
    pub thorough: bool,
}

fn gen_lan(r: &mut Rng, idx: usize, large: bool) -> Lan {
    let plen = if large { r.range(16, 23) as u8 } else { *r.pick(&[24u8, 24, 25, 26, 27, 28, 28, 29, 29, 30, 30]) };
    let base: u32 = match idx {
        0 => u32::from(Ipv4Addr::new(192, 168, r.range(0, 250) as u8, 0)),
        1 => u32::from(Ipv4Addr::new(10, r.range(0, 250) as u8, r.range(0, 250) as u8, 0)),
        _ => u32::from(Ipv4Addr::new(172, 16 + r.range(0, 15) as u8, r.range(0, 250) as u8, 0)),
    };
    let net = if plen >= 24 {
        /* a random sub-block of the /24 */
        base + ((r.below(1 << (plen - 24)) as u32) << (32 - plen))
    } else {
        base & mask(plen)
    };
    let hs: Vec<u32> = hosts(net, plen).into_iter().collect();
    /* the server sits at the first, the last or a random host address */
    let server = match r.below(4) {
        0 => hs[0],
        1 => *hs.last().unwrap(),
        _ => *r.pick(&hs),
    };
    Lan {
        ifidx: 2 + idx as u32,
        name: format!("eth{}", idx),
        server_ip: Ipv4Addr::from(server),
        plen,
        mac: [0x02, 0x00, 0x5e, 0x10, 0x00, idx as u8 + 1],
        mtu: *r.pick(&[1500u32, 1500, 1500, 1280, 9000]),
    }
}

fn gen_bytes(r: &mut Rng, maxlen: usize, nasty: bool) -> Vec<u8> {
    let len = if r.chance(0.1) { r.range(0, maxlen as u64) } else { r.range(1, 12.min(maxlen as u64)) } as usize;
    let special = [b'"', b'\\', 0u8, 0x1f, 0x7f, 0x80, 0xff, b'\n', b'\t', 0xc3, 0x28, b'{', b'}', b',', b'\''];
    (0..len)
        .map(|_| {
            if nasty && r.chance(0.4) {
                *r.pick(&special)
            } else if nasty && r.chance(0.2) {
                r.below(256) as u8
            } else {
                b'a' + r.below(26) as u8
            }
        })
        .collect()
}

fn gen_url(r: &mut Rng, long: bool) -> String {
    let n = if long { r.range(240, 600) } else { r.range(5, 60) } as usize;
    let mut s = String::from("https://portal.example/");
    while s.len() < n {
        s.push((b'a' + r.below(26) as u8) as char);
    }
    s
}

pub fn gen_config(r: &mut Rng, lans: &[Lan], clients: &[ClientSpec], allow_policies: bool, tracers: bool) -> ConfModel {
    let mut addresses = vec![];
    let mut policies = vec![];
    for (li, lan) in lans.iter().enumerate() {
        let style = if allow_policies { r.below(4) } else { 0 };
        let net = Ipv4Addr::from(lan.network());
        let written = if r.chance(0.3) { lan.server_ip } else { net };
        let hs: Vec<u32> = hosts(lan.network(), lan.plen).into_iter().collect();
        let lan_clients: Vec<&ClientSpec> = clients.iter().filter(|c| c.lan == li && c.chaddr.len() == 6).collect();
        match style {
            0 => addresses.push((written, lan.plen)),
            1 => {
                /* top-level addresses plus reservations carved out by an outer match-subnet policy */
                addresses.push((written, lan.plen));
                let mut subs = vec![];
                let mut taken = BTreeSet::new();
                for c in lan_clients.iter().take(r.range(0, 2) as usize) {
                    let a = *r.pick(&hs);
                    if a != u32::from(lan.server_ip) && taken.insert(a) {
                        subs.push(PolicyM { match_chaddr: Some(c.chaddr.clone()), apply_address: vec![a.into()], ..Default::default() });
                    }
                }
                if r.chance(0.4) {
                    let a = *r.pick(&hs);
                    if a != u32::from(lan.server_ip) && taken.insert(a) {
                        /* reserve-only entry: no conditions, so it never matches anybody */
                        subs.push(PolicyM { apply_address: vec![a.into()], ..Default::default() });
                    }
                }
                if !subs.is_empty() {
                    policies.push(PolicyM { match_subnet: Some((net, lan.plen)), policies: subs, ..Default::default() });
                }
            }
            2 => {
                /* no top-level addresses: an explicit apply-subnet policy (the manual's example) */
                let mut subs = vec![];
                let mut taken = BTreeSet::new();
                for c in lan_clients.iter().take(r.range(0, 2) as usize) {
                    let a = *r.pick(&hs);
                    if a != u32::from(lan.server_ip) && taken.insert(a) {
                        subs.push(PolicyM { match_chaddr: Some(c.chaddr.clone()), apply_address: vec![a.into()], ..Default::default() });
                    }
                }
                if r.chance(0.3) {
                    if let Some(c) = lan_clients.first() {
                        /* match-only entry: no addresses, inherits the parent pool */
                        subs.push(PolicyM { match_chaddr: Some(c.chaddr.clone()), ..Default::default() });
                    }
                }
                policies.push(PolicyM {
                    match_subnet: Some((net, lan.plen)),
                    apply_subnet: vec![(net, lan.plen)],
                    policies: subs,
                    ..Default::default()
                });
            }
            _ => {
                /* an apply-range pool, possibly touching both ends of the host range */
                let (lo, hi) = if r.chance(0.5) || hs.len() < 3 {
                    (hs[0], *hs.last().unwrap())
                } else {
                    let a = r.below(hs.len() as u64) as usize;
                    let b = r.range(a as u64, hs.len() as u64 - 1) as usize;
                    (hs[a], hs[b])
                };
                policies.push(PolicyM {
                    match_subnet: Some((net, lan.plen)),
                    apply_range: vec![(lo.into(), hi.into())],
                    ..Default::default()
                });
            }
        }
    }
    ConfModel {
        addresses,
        policies,
        captive_portal: if tracers && r.chance(0.7) {
            let long = r.chance(0.4);
            Some(gen_url(r, long))
        } else {
            None
        },
        dns_search: if tracers && r.chance(0.6) {
            let many = if r.chance(0.3) { 24 } else { 3 };
            let n = r.range(1, many);
            (0..n).map(|i| format!("d{}{}.example.org", i, "x".repeat(r.range(0, 20) as usize))).collect()
        } else {
            vec![]
        },
        api_listeners: vec!["/var/lib/erbium/control".into(), "127.0.0.1:9968".into(), "[::1]:9968".into(), "@erbium-abstract".into()],
        acls: None,
    }
}

fn flags_value(r: &mut Rng) -> u16 {
    match r.below(10) {
        0..=3 => 0,
        4..=5 => 0x8000,
        6 => 1 << r.below(16),
        7 => 0x0080,
        8 => !(1u16 << r.below(16)),
        _ => r.below(65536) as u16,
    }
}

pub fn generate(seed: u64, opts: &GenOpts) -> PlanA {
    let mut r = Rng::new(seed, "plan-a");
    let shape = opts.shape;
    let nlans = if shape == "drain" { 1 } else { *r.pick(&[1usize, 1, 2, 2, 3]) };
    let large = shape == "drain-large";
    let lans: Vec<Lan> = (0..nlans).map(|i| gen_lan(&mut r, i, large)).collect();
    let nasty = shape == "listing" || r.chance(0.3);
    let nclients = match shape {
        "drain" | "drain-large" => 0,
        _ => r.range(1, if opts.thorough { 8 } else { 5 }) as usize,
    };
    let mut clients: Vec<ClientSpec> = (0..nclients)
        .map(|i| {
            let hlen = if r.chance(0.9) { 6 } else { r.range(0, 16) as usize };
            let mut chaddr = vec![0x02, 0x00, 0x00, 0x00, 0x01, i as u8 + 1];
            chaddr.resize(hlen.max(6), 0x40 + i as u8);
            chaddr.truncate(hlen);
            ClientSpec {
                chaddr,
                client_id: if r.chance(0.4) { Some(gen_bytes(&mut r, 255, nasty)) } else { None },
                hostname: if r.chance(0.6) { Some(gen_bytes(&mut r, 255, nasty)) } else { None },
                lan: r.below(nlans as u64) as usize,
            }
        })
        .collect();
    /* sometimes two machines present the same client identifier */
    if clients.len() >= 2 && r.chance(0.15) {
        let id = clients[0].client_id.clone().unwrap_or_else(|| vec![1, 2, 3, 4]);
        clients[0].client_id = Some(id.clone());
        clients[1].client_id = Some(id);
    }
    let policies_ok = !matches!(shape, "drain-large");
    let tracers = matches!(shape, "wire" | "mixed");
    let ncfg = if matches!(shape, "mixed" | "restart") && r.chance(0.5) { 2 } else { 1 };
    let configs: Vec<ConfModel> = (0..ncfg).map(|_| gen_config(&mut r, &lans, &clients, policies_ok, tracers)).collect();

    let mut steps: Vec<Step> = vec![];
    let mut t: u64 = 1000;
    let nsteps = match shape {
        "drain" | "drain-large" => 0,
        _ => r.range(6, if opts.thorough { 60 } else { 30 }) as usize,
    };
    let concurrent = matches!(shape, "mixed" | "concurrent") && r.chance(if shape == "concurrent" { 1.0 } else { 0.25 });
    let mut xid = 0x1000_0000u32 | ((seed as u32) << 8 & 0x0fff_ff00);
    for _ in 0..nsteps {
        /* time between steps: from the same instant to days */
        let gap = match r.below(12) {
            0 if concurrent => 0,
            0..=3 => r.range(1, 5_000),
            4..=6 => r.range(5_000, 400_000),
            7..=8 => r.range(250_000, 350_000),
            9 => r.range(400_000, 4_000_000),
            10 => r.range(4_000_000, 90_000_000),
            _ => r.range(80_000_000, 200_000_000),
        };
        t += gap;
        let roll = r.below(100);
        let kind = if roll < 78 || clients.is_empty() {
            if clients.is_empty() {
                continue;
            }
            let ci = r.below(clients.len() as u64) as usize;
            let c = &clients[ci];
            let lan = if r.chance(0.08) { r.below(nlans as u64) as usize } else { c.lan };
            let mtype = match r.below(40) {
                0..=14 => Some(1u8),
                15..=31 => Some(3),
                32 => Some(4),
                33 => Some(7),
                34 => Some(8),
                35 => Some(2),
                36 => Some(5),
                37 => Some(r.below(256) as u8),
                38 => None,
                _ => Some(1),
            };
            let any_host = |r: &mut Rng| -> Ipv4Addr {
                let l = &lans[lan];
                let hs: Vec<u32> = hosts(l.network(), l.plen).into_iter().collect();
                match r.below(8) {
                    0 => Ipv4Addr::from(l.network()),
                    1 => Ipv4Addr::from(l.broadcast()),
                    2 => l.server_ip,
                    3 => Ipv4Addr::new(203, 0, 113, r.below(255) as u8),
                    _ => Ipv4Addr::from(*r.pick(&hs)),
                }
            };
            let (ciaddr, requested) = match (mtype, r.below(10)) {
                (Some(1), 0..=5) => (AddrRef::None, AddrRef::None),
                (Some(1), 6..=7) => (AddrRef::None, AddrRef::LastAcked),
                (Some(1), _) => (AddrRef::None, AddrRef::Fixed(any_host(&mut r))),
                (Some(3), 0..=4) => (AddrRef::None, AddrRef::LastOffered),
                (Some(3), 5..=6) => (AddrRef::LastAcked, AddrRef::None),
                (Some(3), 7) => (AddrRef::None, AddrRef::Fixed(any_host(&mut r))),
                (Some(3), 8) => (AddrRef::Fixed(any_host(&mut r)), AddrRef::None),
                (Some(3), _) => (AddrRef::None, AddrRef::None),
                (_, 0..=4) => (AddrRef::LastAcked, AddrRef::None),
                (_, 5..=7) => (AddrRef::None, AddrRef::LastAcked),
                _ => (AddrRef::None, AddrRef::None),
            };
            let server_id = match r.below(10) {
                0..=4 => None,
                5..=6 => Some(SidRef::FromLastReply),
                7 => Some(SidRef::ThisIface),
                8 => Some(if nlans > 1 { SidRef::OtherIface } else { SidRef::Foreign(Ipv4Addr::new(198, 51, 100, 7)) }),
                _ => Some(SidRef::Foreign(Ipv4Addr::new(198, 51, 100, r.below(255) as u8))),
            };
            let mut param_list = vec![1u8, 3, 6, 15, 28, 51, 54];
            if r.chance(0.7) {
                param_list.extend_from_slice(&[114, 119, 26]);
            }
            if r.chance(0.1) {
                let n = r.range(0, 40) as usize;
                param_list = r.bytes(n);
            }
            let mut extra = vec![];
            if r.chance(0.15) {
                extra.push((60u8, gen_bytes(&mut r, 40, false)));
            }
            if r.chance(0.05) {
                extra.push((r.range(62, 254) as u8, gen_bytes(&mut r, 255, true)));
            }
            xid = xid.wrapping_add(1);
            StepKind::Dhcp(MsgSpec {
                client: ci,
                lan,
                mtype,
                ciaddr,
                requested,
                server_id,
                flags: flags_value(&mut r),
                giaddr: if r.chance(0.05) { Some(Ipv4Addr::new(10, 99, 0, r.range(1, 200) as u8)) } else { None },
                with_client_id: !r.chance(0.05),
                with_hostname: !r.chance(0.2),
                param_list,
                extra,
                xid,
            })
        } else if roll < 84 {
            StepKind::ClockJump(match r.below(6) {
                0 => -(r.range(1, 5) as i64),
                1 => r.range(1, 600) as i64,
                2 => r.range(250, 350) as i64,
                3 => r.range(3_000, 90_000) as i64,
                _ => r.range(80_000, 400_000) as i64,
            })
        } else if roll < 90 && matches!(shape, "mixed" | "restart") {
            StepKind::Restart { cfg: r.below(ncfg as u64) as usize }
        } else if roll < 93 && ncfg > 1 {
            StepKind::SwapConfig { cfg: r.below(ncfg as u64) as usize }
        } else if roll < 97 && matches!(shape, "mixed" | "listing") {
            StepKind::Http {
                path: r.pick(&["/api/v1/leases.json", "/api/v1/leases.json", "/metrics"]).to_string(),
                via: match r.below(5) {
                    0 => HttpVia::Tcp4,
                    1 => HttpVia::Tcp6,
                    2 => HttpVia::UnixAbstract,
                    _ => HttpVia::UnixPath,
                },
                from: "127.0.0.1".into(),
            }
        } else if matches!(shape, "mixed" | "diskfault") && roll < 99 {
            StepKind::DiskFault { k: r.range(1, 8), full: r.chance(0.3) }
        } else {
            continue;
        };
        steps.push(Step { at_ms: t, kind });
    }
    PlanA {
        seed,
        shape: shape.to_string(),
        lans,
        configs,
        clients,
        steps,
        wall_base: 1_700_000_000 + r.below(200_000_000) as i64,
        yield_p: if concurrent { *r.pick(&[0.0, 0.2, 0.5]) } else { 0.0 },
        spurious_p: if r.chance(0.3) { 0.05 } else { 0.0 },
        eintr_p: if r.chance(0.3) { 0.05 } else { 0.0 },
        prefill: vec![],
    }
}
