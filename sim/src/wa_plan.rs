//! World A (the DHCP host): plan data, seeded plan generation and the
//! reference model of which addresses erbium.conf(5) grants to whom.

use crate::rng::Rng;
use serde::{Deserialize, Serialize};
use std::collections::BTreeSet;
use std::net::Ipv4Addr;

#[derive(Clone, Debug, Serialize, Deserialize)]
pub struct Lan {
    pub ifidx: u32,
    pub name: String,
    pub server_ip: Ipv4Addr,
    pub plen: u8,
    pub mac: [u8; 6],
    pub mtu: u32,
}

impl Lan {
    pub fn mask(&self) -> u32 {
        mask(self.plen)
    }
    pub fn network(&self) -> u32 {
        u32::from(self.server_ip) & self.mask()
    }
    pub fn broadcast(&self) -> u32 {
        self.network() | !self.mask()
    }
}

pub fn mask(plen: u8) -> u32 {
    if plen == 0 { 0 } else { !0u32 << (32 - plen as u32) }
}

/// host addresses of a prefix: everything but the first and the last address
pub fn hosts(net: u32, plen: u8) -> BTreeSet<u32> {
    let n = net & mask(plen);
    let b = n | !mask(plen);
    ((n + 1)..b).collect()
}

#[derive(Clone, Debug, Default, Serialize, Deserialize)]
pub struct PolicyM {
    pub match_subnet: Option<(Ipv4Addr, u8)>,
    pub match_chaddr: Option<Vec<u8>>,
    pub apply_subnet: Vec<(Ipv4Addr, u8)>,
    pub apply_range: Vec<(Ipv4Addr, Ipv4Addr)>,
    pub apply_address: Vec<Ipv4Addr>,
    pub policies: Vec<PolicyM>,
    /// `apply-max-lease`, seconds
    #[serde(default)]
    pub apply_max_lease: Option<u64>,
    /// other `apply-<option>: <yaml value>` rules, written verbatim
    #[serde(default)]
    pub apply_other: Vec<(String, String)>,
    /// `match-<option>` conditions on string-valued request options: (name, code, value);
    /// value None is written as null and requires the option to be absent
    #[serde(default)]
    pub match_other: Vec<(String, u8, Option<String>)>,
    /// 0: keys written matches first, then addresses, options, sub-policies; otherwise the
    /// seed of a permutation of the keys
    #[serde(default)]
    pub key_order: u64,
}

/// The options of one request as the server sees them (instances of a code concatenated).
pub type ReqOpts = std::collections::BTreeMap<u8, Vec<u8>>;

impl PolicyM {
    pub fn uses_match_other(&self) -> bool {
        !self.match_other.is_empty() || self.policies.iter().any(|p| p.uses_match_other())
    }
    /// levels of policies below and including this one
    pub fn depth(&self) -> usize {
        1 + self.policies.iter().map(|p| p.depth()).max().unwrap_or(0)
    }
    /// `a` is written as a single apply-address here or below
    pub fn reserves(&self, a: Ipv4Addr) -> bool {
        self.apply_address.contains(&a) || self.policies.iter().any(|p| p.reserves(a))
    }
    fn has_conditions(&self) -> bool {
        self.match_subnet.is_some() || self.match_chaddr.is_some() || !self.match_other.is_empty()
    }
    fn has_addresses(&self) -> bool {
        !self.apply_subnet.is_empty() || !self.apply_range.is_empty() || !self.apply_address.is_empty()
    }
    /// every address written in this policy or any policy below it
    fn all_used(&self) -> BTreeSet<u32> {
        let mut s = self.written();
        for p in &self.policies {
            s.extend(p.all_used());
        }
        s
    }
    fn written(&self) -> BTreeSet<u32> {
        let mut s = BTreeSet::new();
        for (a, l) in &self.apply_subnet {
            s.extend(hosts(u32::from(*a), *l));
        }
        for (a, b) in &self.apply_range {
            s.extend(u32::from(*a)..=u32::from(*b));
        }
        for a in &self.apply_address {
            s.insert(u32::from(*a));
        }
        s
    }
    /// this policy's own pool: what it writes minus what its sub-policies claim
    fn own_pool(&self) -> BTreeSet<u32> {
        let mut s = self.written();
        for p in &self.policies {
            for a in p.all_used() {
                s.remove(&a);
            }
        }
        s
    }
    fn conditions_hold(&self, chaddr: &[u8], opts: &ReqOpts, server_ip: Ipv4Addr) -> bool {
        if let Some((n, l)) = self.match_subnet {
            if u32::from(server_ip) & mask(l) != u32::from(n) & mask(l) {
                return false;
            }
        }
        if let Some(m) = &self.match_chaddr {
            if m.as_slice() != chaddr {
                return false;
            }
        }
        for (_, code, want) in &self.match_other {
            match (want, opts.get(code)) {
                (None, None) => (),
                (Some(w), Some(have)) if w.as_bytes() == have.as_slice() => (),
                _ => return false,
            }
        }
        true
    }
    fn matches(&self, chaddr: &[u8], opts: &ReqOpts, server_ip: Ipv4Addr) -> bool {
        if self.has_conditions() {
            self.conditions_hold(chaddr, opts, server_ip)
        } else {
            self.policies.iter().any(|p| p.matches(chaddr, opts, server_ip))
        }
    }
    fn yaml(&self, indent: usize, out: &mut String) {
        /* the keys of this policy, each a block of text; a YAML hash has no order, so the
         * blocks may be written in any order (`key_order`) without changing the meaning */
        let pad = " ".repeat(indent);
        let mut blocks: Vec<String> = vec![];
        if let Some((n, l)) = self.match_subnet {
            blocks.push(format!("match-subnet: {}/{}\n", n, l));
        }
        if let Some(m) = &self.match_chaddr {
            blocks.push(format!("match-hardware-address: \"{}\"\n", m.iter().map(|b| format!("{:02x}", b)).collect::<Vec<_>>().join(":")));
        }
        for (name, _, v) in &self.match_other {
            blocks.push(match v {
                Some(v) => format!("match-{}: \"{}\"\n", name, v),
                None => format!("match-{}: null\n", name),
            });
        }
        /* YAML hashes cannot repeat a key: at most one of each apply-* is written */
        for (a, l) in self.apply_subnet.iter().take(1) {
            blocks.push(format!("apply-subnet: {}/{}\n", a, l));
        }
        for (a, b) in self.apply_range.iter().take(1) {
            blocks.push(format!("apply-range: {{ start: {}, end: {} }}\n", a, b));
        }
        for a in self.apply_address.iter().take(1) {
            blocks.push(format!("apply-address: {}\n", a));
        }
        if let Some(m) = self.apply_max_lease {
            blocks.push(format!("apply-max-lease: {}\n", m));
        }
        for (k, v) in &self.apply_other {
            blocks.push(format!("apply-{}: {}\n", k, v));
        }
        if !self.policies.is_empty() {
            let mut b = String::from("policies:\n");
            for p in &self.policies {
                p.yaml(indent + 4, &mut b);
            }
            blocks.push(b);
        }
        if blocks.is_empty() {
            /* an entirely empty policy: write it as an empty hash */
            out.push_str(&format!("{}- {{}}\n", " ".repeat(indent - 2)));
            return;
        }
        if self.key_order != 0 {
            Rng::new(self.key_order, "policy-key-order").shuffle(&mut blocks);
        }
        for (i, b) in blocks.iter().enumerate() {
            /* the first line of a block carries the key; nested lines are already indented */
            let (head, rest) = b.split_once('\n').unwrap();
            if i == 0 {
                out.push_str(&format!("{}- {}\n", " ".repeat(indent - 2), head));
            } else {
                out.push_str(&format!("{}{}\n", pad, head));
            }
            out.push_str(rest);
        }
    }
}

fn eval_policies(ps: &[PolicyM], chaddr: &[u8], opts: &ReqOpts, server_ip: Ipv4Addr, inherited: Option<BTreeSet<u32>>) -> Option<Option<BTreeSet<u32>>> {
    for p in ps {
        if p.matches(chaddr, opts, server_ip) {
            let pool = if p.has_addresses() { Some(p.own_pool()) } else { inherited.clone() };
            if let Some(sub) = eval_policies(&p.policies, chaddr, opts, server_ip, pool.clone()) {
                return Some(sub);
            }
            return Some(pool);
        }
    }
    None
}

/// The `apply-max-lease` in force for a client: policies are applied outside-in along the
/// first matching policy of each level, an inner value replacing an outer one.
fn eval_max_lease(ps: &[PolicyM], chaddr: &[u8], opts: &ReqOpts, server_ip: Ipv4Addr, inherited: Option<u64>) -> Option<u64> {
    for p in ps {
        if p.matches(chaddr, opts, server_ip) {
            let here = p.apply_max_lease.or(inherited);
            return eval_max_lease(&p.policies, chaddr, opts, server_ip, here);
        }
    }
    inherited
}

#[derive(Clone, Debug, Serialize, Deserialize)]
pub struct ConfModel {
    /// top-level `addresses`, as written (host bits may be set)
    pub addresses: Vec<(Ipv4Addr, u8)>,
    pub policies: Vec<PolicyM>,
    pub captive_portal: Option<String>,
    pub dns_search: Vec<String>,
    pub api_listeners: Vec<String>,
    pub acls: Option<Vec<AclM>>,
}

#[derive(Clone, Debug, Serialize, Deserialize)]
pub struct AclM {
    pub subnets: Option<Vec<String>>,
    pub unix: Option<bool>,
    pub access: Vec<String>,
}

impl ConfModel {
    pub fn yaml(&self) -> String {
        let mut s = String::from("---\n");
        if !self.addresses.is_empty() {
            s.push_str(&format!(
                "addresses: [{}]\n",
                self.addresses.iter().map(|(a, l)| format!("{}/{}", a, l)).collect::<Vec<_>>().join(", ")
            ));
        }
        if let Some(cp) = &self.captive_portal {
            s.push_str(&format!("captive-portal: \"{}\"\n", cp));
        }
        if !self.dns_search.is_empty() {
            s.push_str(&format!(
                "dns-search: [{}]\n",
                self.dns_search.iter().map(|d| format!("\"{}\"", d)).collect::<Vec<_>>().join(", ")
            ));
        }
        s.push_str(&format!(
            "api-listeners: [{}]\n",
            self.api_listeners.iter().map(|d| format!("\"{}\"", d)).collect::<Vec<_>>().join(", ")
        ));
        if let Some(acls) = &self.acls {
            s.push_str(if acls.is_empty() { "acls: []\n" } else { "acls:\n" });
            for a in acls {
                let mut parts = vec![];
                if let Some(sn) = &a.subnets {
                    parts.push(format!("match-subnets: [{}]", sn.iter().map(|x| format!("\"{}\"", x)).collect::<Vec<_>>().join(", ")));
                }
                if let Some(u) = a.unix {
                    parts.push(format!("match-unix: {}", u));
                }
                parts.push(format!("apply-access: [{}]", a.access.iter().map(|x| format!("\"{}\"", x)).collect::<Vec<_>>().join(", ")));
                s.push_str(&format!("  - {{ {} }}\n", parts.join(", ")));
            }
        }
        if !self.policies.is_empty() {
            s.push_str("dhcp-policies:\n");
            for p in &self.policies {
                p.yaml(4, &mut s);
            }
        }
        s
    }

    /// The configured maximum lease time for this client on this interface, if any.
    pub fn max_lease(&self, chaddr: &[u8], opts: &ReqOpts, lan: &Lan) -> Option<u64> {
        eval_max_lease(&self.policies, chaddr, opts, lan.server_ip, None)
    }

    /// D(config, client, interface): the documented address set, or None if
    /// the documentation says this client is not served at all.
    pub fn allowed(&self, chaddr: &[u8], lan: &Lan) -> Option<BTreeSet<u32>> {
        self.allowed_src(chaddr, &ReqOpts::new(), lan).0
    }

    /// The same for a request carrying these options (match-<option> conditions).
    pub fn allowed_for(&self, chaddr: &[u8], opts: &ReqOpts, lan: &Lan) -> Option<BTreeSet<u32>> {
        self.allowed_src(chaddr, opts, lan).0
    }

    /// The documented set, and whether it comes from a dhcp-policies pool
    /// (true) or from the top-level `addresses` (false).
    pub fn allowed_src(&self, chaddr: &[u8], opts: &ReqOpts, lan: &Lan) -> (Option<BTreeSet<u32>>, bool) {
        let mut used = BTreeSet::new();
        for p in &self.policies {
            used.extend(p.all_used());
        }
        let mut base: Option<BTreeSet<u32>> = None;
        for (a, l) in &self.addresses {
            if u32::from(*a) & mask(*l) == u32::from(lan.server_ip) & mask(*l) {
                let mut h = hosts(u32::from(*a), *l);
                for u in &used {
                    h.remove(u);
                }
                base = Some(h);
                break;
            }
        }
        let pool = match eval_policies(&self.policies, chaddr, opts, lan.server_ip, base.clone()) {
            Some(p) => p,
            None => base.clone(),
        };
        let from_policy = pool != base;
        (
            pool.map(|mut p| {
                /* never the server's own address on the receiving interface */
                p.remove(&u32::from(lan.server_ip));
                p
            }),
            from_policy,
        )
    }
}

#[derive(Clone, Debug, Serialize, Deserialize)]
pub struct ClientSpec {
    pub chaddr: Vec<u8>, /* hlen octets */
    pub client_id: Option<Vec<u8>>,
    pub hostname: Option<Vec<u8>>,
    pub lan: usize,
}

impl ClientSpec {
    pub fn identity(&self, with_client_id: bool) -> Vec<u8> {
        match (&self.client_id, with_client_id) {
            (Some(id), true) => id.clone(),
            _ => self.chaddr.clone(),
        }
    }
}

#[derive(Clone, Debug, Serialize, Deserialize, PartialEq)]
pub enum AddrRef {
    None,
    Fixed(Ipv4Addr),
    LastOffered,
    LastAcked,
    /// the address most recently acknowledged to another client (index into `clients`)
    AckedBy(usize),
}

#[derive(Clone, Debug, Serialize, Deserialize, PartialEq)]
pub enum SidRef {
    FromLastReply,
    ThisIface,
    OtherIface,
    Foreign(Ipv4Addr),
}

#[derive(Clone, Debug, Serialize, Deserialize)]
pub struct MsgSpec {
    pub client: usize,
    pub lan: usize,
    pub mtype: Option<u8>,
    pub ciaddr: AddrRef,
    pub requested: AddrRef,
    pub server_id: Option<SidRef>,
    pub flags: u16,
    pub giaddr: Option<Ipv4Addr>,
    pub with_client_id: bool,
    pub with_hostname: bool,
    pub param_list: Vec<u8>,
    pub extra: Vec<(u8, Vec<u8>)>,
    pub xid: u32,
    /// liveness probe: a well-formed request from a client with a reservation
    #[serde(default)]
    pub must_answer: bool,
    /// RFC 3396: send every option value of two or more octets as two instances
    #[serde(default)]
    pub split_opts: bool,
}

#[derive(Clone, Debug, Serialize, Deserialize)]
pub enum HttpVia {
    Tcp4,
    Tcp6,
    UnixPath,
    UnixAbstract,
    UnixUnnamed,
}

#[derive(Clone, Debug, Serialize, Deserialize)]
pub enum StepKind {
    Dhcp(MsgSpec),
    /// raw octets delivered to UDP port 67 on a LAN (hostile input)
    Raw { lan: usize, data: Vec<u8> },
    /// the wall clock jumps (NTP step, suspend/resume)
    ClockJump(i64),
    /// clean restart, optionally into another configuration
    Restart { cfg: usize },
    /// the operator's configuration is swapped in the running process
    SwapConfig { cfg: usize },
    /// kill the process just before its k-th mutating disk call from now
    CrashAtCall(u64),
    /// the k-th mutating disk call from now fails
    DiskFault { k: u64, full: bool },
    /// `aim`: 0 = fetch now; 1..=3 = first wait until the second before / of / after the next
    /// lease expiry in the store (boundary instants of the C20 gauges)
    /// `read_fault`: this many of the reads erbium makes from the lease database while it
    /// serves the request fail with an I/O error
    Http { path: String, via: HttpVia, from: String, #[serde(default)] aim: u8, #[serde(default)] read_fault: u32 },
    /// an API request from an arbitrary source, judged against the ACL model;
    /// `from`/`to` are socket addresses, or unix:<path>, unix:@<abstract>, unix:unnamed
    AclHttp { path: String, from: String, to: String },
}

#[derive(Clone, Debug, Serialize, Deserialize)]
pub struct Step {
    pub at_ms: u64,
    pub kind: StepKind,
}

#[derive(Clone, Debug, Serialize, Deserialize)]
pub struct PlanA {
    pub seed: u64,
    pub shape: String,
    pub lans: Vec<Lan>,
    pub configs: Vec<ConfModel>,
    pub clients: Vec<ClientSpec>,
    pub steps: Vec<Step>,
    pub wall_base: i64,
    pub yield_p: f64,
    pub spurious_p: f64,
    pub eintr_p: f64,
    /// probability that a frame or datagram erbium sends is refused with ENOBUFS/ENETDOWN
    #[serde(default)]
    pub send_err_p: f64,
    /// rows placed in the store before first boot: (address, clientid, start, expiry)
    pub prefill: Vec<(Ipv4Addr, Vec<u8>, i64, i64)>,
    /// an on-disk image written by another version of erbium, present before first boot
    #[serde(default)]
    pub image: Option<Image>,
    /// kill the process just before its k-th mutating disk call, counted from first boot
    #[serde(default)]
    pub crash_at_total: Option<u64>,
    /// restart-equivalence pair: also run the plan with a clean restart before this step
    #[serde(default)]
    pub pair_split: Option<usize>,
}

#[derive(Clone, Debug, Serialize, Deserialize)]
pub struct ImageRow {
    pub address: String,
    pub clientid: Option<Vec<u8>>,
    pub start: i64,
    pub expiry: i64,
}

#[derive(Clone, Debug, Serialize, Deserialize)]
pub enum Image {
    /// the unversioned original schema (no options column)
    V0 { rows: Vec<ImageRow>, version_table: bool, version_row: bool },
    /// a database written by a newer erbium
    Newer { version: i64, rows: Vec<ImageRow> },
    /// the same rows in the current schema (the reference an upgraded V0 image is compared with)
    Current { rows: Vec<ImageRow> },
}

pub struct GenOpts {
    pub shape: &'static str,
    pub thorough: bool,
}

fn gen_lan(r: &mut Rng, idx: usize, large: bool) -> Lan {
    let plen = if large { r.range(18, 23) as u8 } else { *r.pick(&[24u8, 24, 25, 26, 27, 28, 28, 29, 29, 30, 30]) };
    let base: u32 = match idx {
        0 => u32::from(Ipv4Addr::new(192, 168, r.range(0, 250) as u8, 0)),
        1 => u32::from(Ipv4Addr::new(10, r.range(0, 250) as u8, r.range(0, 250) as u8, 0)),
        _ => u32::from(Ipv4Addr::new(172, 16 + r.range(0, 15) as u8, r.range(0, 250) as u8, 0)),
    };
    let net = if plen >= 24 {
        /* a random sub-block of the /24 */
        base + ((r.below(1 << (plen - 24)) as u32) << (32 - plen))
    } else {
        base & mask(plen)
    };
    let hs: Vec<u32> = hosts(net, plen).into_iter().collect();
    /* the server sits at the first, the last or a random host address */
    let server = match r.below(4) {
        0 => hs[0],
        1 => *hs.last().unwrap(),
        _ => *r.pick(&hs),
    };
    Lan {
        ifidx: 2 + idx as u32,
        name: format!("eth{}", idx),
        server_ip: Ipv4Addr::from(server),
        plen,
        mac: [0x02, 0x00, 0x5e, 0x10, 0x00, idx as u8 + 1],
        mtu: *r.pick(&[1500u32, 1500, 1500, 1280, 9000]),
    }
}

fn gen_bytes(r: &mut Rng, maxlen: usize, nasty: bool) -> Vec<u8> {
    let len = if r.chance(0.1) { r.range(0, maxlen as u64) } else { r.range(1, 12.min(maxlen as u64)) } as usize;
    let special = [b'"', b'\\', 0u8, 0x1f, 0x7f, 0x80, 0xff, b'\n', b'\t', 0xc3, 0x28, b'{', b'}', b',', b'\''];
    let mut v: Vec<u8> = (0..len)
        .map(|_| {
            if nasty && r.chance(0.4) {
                *r.pick(&special)
            } else if nasty && r.chance(0.2) {
                r.below(256) as u8
            } else {
                b'a' + r.below(26) as u8
            }
        })
        .collect();
    if nasty {
        /* whole multi-octet sequences that text encoders treat specially: line and paragraph
         * separators, NEL, BOM, a 4-octet character, a combining mark, and malformed UTF-8
         * (overlong NUL, a surrogate half, a truncated sequence); own stream of draws */
        let mut k = Rng::new(v.iter().fold(len as u64, |a, b| a.wrapping_mul(131).wrapping_add(*b as u64)), "multi-octet");
        if k.chance(0.25) {
            let corpus: [&[u8]; 12] = [
                &[0xe2, 0x80, 0xa8],
                &[0xe2, 0x80, 0xa9],
                &[0xc2, 0x85],
                &[0xef, 0xbb, 0xbf],
                &[0xf0, 0x9f, 0x98, 0x80],
                &[0x65, 0xcc, 0x81],
                &[0xc3, 0xa9],
                &[0xc0, 0x80],
                &[0xed, 0xa0, 0x80],
                &[0xe2, 0x80],
                &[0xef, 0xbf, 0xbd],
                b"\\u2028",
            ];
            for _ in 0..k.range(1, 2) {
                let seq = *k.pick(&corpus);
                let at = k.below(v.len() as u64 + 1) as usize;
                if v.len() + seq.len() <= maxlen.max(seq.len()) {
                    for (i, b) in seq.iter().enumerate() {
                        v.insert(at + i, *b);
                    }
                }
            }
        }
    }
    v
}

fn gen_url(r: &mut Rng, long: bool) -> String {
    let n = if long { r.range(240, 600) } else { r.range(5, 60) } as usize;
    let mut s = String::from("https://portal.example/");
    while s.len() < n {
        s.push((b'a' + r.below(26) as u8) as char);
    }
    s
}

/// Sometimes push a run of reservations one level further down, under a middle policy that is
/// a plain grouping, a repeated match-subnet, or a range pool around the reserved addresses.
fn nest(r: &mut Rng, subs: Vec<PolicyM>, net: Ipv4Addr, plen: u8, hs: &[u32], server_ip: Ipv4Addr) -> Vec<PolicyM> {
    if subs.is_empty() || !r.chance(0.4) {
        return subs;
    }
    let keep = r.below(subs.len() as u64) as usize;
    let mut outer: Vec<PolicyM> = subs[..keep].to_vec();
    let inner: Vec<PolicyM> = subs[keep..].to_vec();
    let middle = match r.below(4) {
        0 => PolicyM { policies: inner, ..Default::default() },
        1 => PolicyM { match_subnet: Some((net, plen)), policies: inner, ..Default::default() },
        2 => {
            /* a chaddr-less grouping two levels deep */
            let g = PolicyM { policies: inner, ..Default::default() };
            PolicyM { policies: vec![g], ..Default::default() }
        }
        _ => {
            let addrs: Vec<u32> = inner.iter().flat_map(|p| p.apply_address.iter().map(|a| u32::from(*a))).collect();
            if addrs.is_empty() {
                PolicyM { policies: inner, ..Default::default() }
            } else {
                let lo = *addrs.iter().min().unwrap();
                let hi = *addrs.iter().max().unwrap();
                let lo = lo.saturating_sub(r.below(3) as u32).max(hs[0]);
                let hi = (hi + r.below(3) as u32).min(*hs.last().unwrap());
                let _ = server_ip;
                PolicyM { match_subnet: Some((net, plen)), apply_range: vec![(lo.into(), hi.into())], policies: inner, ..Default::default() }
            }
        }
    };
    let at = r.below(outer.len() as u64 + 1) as usize;
    outer.insert(at, middle);
    outer
}

fn decorate(r: &mut Rng, p: &mut PolicyM, depth: usize) {
    if r.chance(if depth == 0 { 0.25 } else { 0.1 }) {
        p.apply_max_lease = Some(*r.pick(&[300u64, 301, 450, 600, 3600, 7200, 43200, 86400, 100_000, 200_000]));
    }
    if r.chance(if depth == 0 { 0.3 } else { 0.1 }) {
        for _ in 0..r.range(1, 3) {
            let rule: (&str, String) = match r.below(12) {
                0 => ("server-id", format!("198.51.100.{}", r.range(1, 250))),
                1 => ("server-id", "null".into()),
                2 => ("lease-time", format!("{}", r.pick(&[1u64, 60, 299, 86401, 1_000_000]))),
                3 => ("lease-time", "null".into()),
                4 => ("netmask", "255.255.0.0".into()),
                5 => ("routers", format!("[192.0.2.{}]", r.range(1, 250))),
                6 => ("dns-servers", "[192.0.2.53, 192.0.2.54]".into()),
                7 => ("domain-name", "\"example.org\"".into()),
                8 => ("renewal-time", format!("{}", r.pick(&[1u64, 10, 1000]))),
                9 => ("mtu", "1400".into()),
                10 => ("address-request", format!("203.0.113.{}", r.range(1, 250))),
                _ => ("message", "\"hello\"".into()),
            };
            if !p.apply_other.iter().any(|(k, _)| k == rule.0) {
                p.apply_other.push((rule.0.to_string(), rule.1));
            }
        }
    }
    {
        /* now and then a policy hands out three dozen options at once (own stream of draws) */
        let mut k = Rng::new(r.clone().next_u64() ^ depth as u64, "kitchen-sink");
        if depth == 0 && k.chance(0.08) {
            let lists = [
                "routers", "time-servers", "name-servers", "dns-servers", "log-servers", "quote-servers", "lpr-servers", "impress-servers", "rlp-servers", "nis-servers", "ntp-servers", "netbios-namesrv", "netbios-distsrv",
                "xwindow-font-servers", "xwindow-display", "nisplus-servers", "home-agent-servers", "smtp-servers", "pop3-servers", "nntp-servers", "www-servers", "finger-servers", "irc-servers", "streettalk-servers", "stda-servers",
            ];
            let strings = ["domain-name", "root-path", "extension-file", "nis-domain", "netbios-scope", "nisplus-domain", "tz-rule", "tz-name", "wpad-url"];
            let bools = ["forward", "source-route", "mtu-subnet", "mask-discovery", "mask-supplier", "router-discovery", "trailers", "ethernet", "tcp-keepalive-garbage", "autoconfig"];
            let mut add = |name: &str, v: String| {
                if !p.apply_other.iter().any(|(n, _)| n == name) {
                    p.apply_other.push((name.to_string(), v));
                }
            };
            for n in lists {
                if k.chance(0.9) {
                    add(n, format!("[192.0.2.{}]", k.range(1, 250)));
                }
            }
            for n in strings {
                if k.chance(0.9) {
                    add(n, format!("\"{}-{}\"", n, k.range(1, 99)));
                }
            }
            for n in bools {
                if k.chance(0.9) {
                    add(n, if k.chance(0.5) { "true".into() } else { "false".into() });
                }
            }
        }
    }
    for q in p.policies.iter_mut() {
        decorate(r, q, depth + 1);
    }
}

pub fn gen_config(r: &mut Rng, lans: &[Lan], clients: &[ClientSpec], allow_policies: bool, tracers: bool) -> ConfModel {
    let mut addresses = vec![];
    let mut policies = vec![];
    for (li, lan) in lans.iter().enumerate() {
        let style = if allow_policies { if r.chance(0.05) { 9 } else { r.below(4) } } else { 0 };
        let net = Ipv4Addr::from(lan.network());
        let written = if r.chance(0.3) { lan.server_ip } else { net };
        let hs: Vec<u32> = hosts(lan.network(), lan.plen).into_iter().collect();
        let lan_clients: Vec<&ClientSpec> = clients.iter().filter(|c| c.lan == li && c.chaddr.len() == 6).collect();
        match style {
            0 => addresses.push((written, lan.plen)),
            9 => (), /* this LAN is not configured at all: nobody on it is served */
            1 => {
                /* top-level addresses plus reservations carved out by an outer match-subnet policy */
                addresses.push((written, lan.plen));
                let mut subs = vec![];
                let mut taken = BTreeSet::new();
                for c in lan_clients.iter().take(r.range(0, 2) as usize) {
                    let a = *r.pick(&hs);
                    if a != u32::from(lan.server_ip) && taken.insert(a) {
                        subs.push(PolicyM { match_chaddr: Some(c.chaddr.clone()), apply_address: vec![a.into()], ..Default::default() });
                    }
                }
                if r.chance(0.4) {
                    let a = *r.pick(&hs);
                    if a != u32::from(lan.server_ip) && taken.insert(a) {
                        /* reserve-only entry: no conditions, so it never matches anybody */
                        subs.push(PolicyM { apply_address: vec![a.into()], ..Default::default() });
                    }
                }
                let subs = nest(r, subs, net, lan.plen, &hs, lan.server_ip);
                if !subs.is_empty() {
                    policies.push(PolicyM { match_subnet: Some((net, lan.plen)), policies: subs, ..Default::default() });
                }
            }
            2 => {
                /* no top-level addresses: an explicit apply-subnet policy (the manual's example) */
                let mut subs = vec![];
                let mut taken = BTreeSet::new();
                for c in lan_clients.iter().take(r.range(0, 2) as usize) {
                    let a = *r.pick(&hs);
                    if a != u32::from(lan.server_ip) && taken.insert(a) {
                        subs.push(PolicyM { match_chaddr: Some(c.chaddr.clone()), apply_address: vec![a.into()], ..Default::default() });
                    }
                }
                if r.chance(0.3) {
                    if let Some(c) = lan_clients.first() {
                        /* match-only entry: no addresses, inherits the parent pool */
                        subs.push(PolicyM { match_chaddr: Some(c.chaddr.clone()), ..Default::default() });
                    }
                }
                let subs = nest(r, subs, net, lan.plen, &hs, lan.server_ip);
                policies.push(PolicyM {
                    match_subnet: Some((net, lan.plen)),
                    apply_subnet: vec![(net, lan.plen)],
                    policies: subs,
                    ..Default::default()
                });
            }
            _ => {
                /* an apply-range pool, possibly touching both ends of the host range; when the
                 * run has several configurations, ranges are often one half of the LAN or all
                 * of it, so that swapping configurations gives disjoint pools and their union */
                let (lo, hi) = if hs.len() >= 4 && r.chance(0.5) {
                    let mid = hs.len() / 2;
                    match r.below(3) {
                        0 => (hs[0], hs[mid - 1]),
                        1 => (hs[mid], *hs.last().unwrap()),
                        _ => (hs[0], *hs.last().unwrap()),
                    }
                } else if r.chance(0.5) || hs.len() < 3 {
                    (hs[0], *hs.last().unwrap())
                } else {
                    let a = r.below(hs.len() as u64) as usize;
                    let b = r.range(a as u64, hs.len() as u64 - 1) as usize;
                    (hs[a], hs[b])
                };
                policies.push(PolicyM {
                    match_subnet: Some((net, lan.plen)),
                    apply_range: vec![(lo.into(), hi.into())],
                    ..Default::default()
                });
            }
        }
    }
    /* option rules and lease ceilings on some policies, including rules that name options
     * the protocol machinery must stay in charge of (server identifier, lease time) */
    if allow_policies {
        for p in policies.iter_mut() {
            decorate(r, p, 0);
        }
        /* class-specific sub-pools: a sub-policy that matches a request option (its own stream
         * of draws, keyed by what has been generated so far, so older seeds keep their plans) */
        let key = lans.iter().fold(policies.len() as u64, |a, l| a.wrapping_mul(31).wrapping_add(u32::from(l.server_ip) as u64));
        let mut k = Rng::new(key, "cfg-match-option");
        for (li, lan) in lans.iter().enumerate() {
            if !k.chance(0.3) {
                continue;
            }
            let net = Ipv4Addr::from(lan.network());
            let hs: Vec<u32> = hosts(lan.network(), lan.plen).into_iter().collect();
            let Some(outer) = policies.iter_mut().find(|p| p.match_subnet == Some((net, lan.plen)) && (!p.apply_subnet.is_empty() || !p.apply_range.is_empty())) else { continue };
            let _ = li;
            let a = k.below(hs.len() as u64) as usize;
            let b = k.range(a as u64, (a as u64 + 3).min(hs.len() as u64 - 1)) as usize;
            let cond = match k.below(4) {
                0 => ("class-id".to_string(), 60u8, Some("pxe".to_string())),
                1 => ("class-id".to_string(), 60u8, None),
                2 => ("host-name".to_string(), 12u8, Some("host".to_string())),
                _ => ("user-class".to_string(), 77u8, Some("lab".to_string())),
            };
            let mut conds = vec![cond];
            {
                /* sometimes a second condition on another option: both must hold (own stream) */
                let mut k2 = Rng::new(key ^ u32::from(lan.server_ip) as u64, "cfg-match-option-second");
                if k2.chance(0.45) {
                    let second = if conds[0].1 == 77 { ("class-id".to_string(), 60u8, Some("pxe".to_string())) } else { ("user-class".to_string(), 77u8, Some("lab".to_string())) };
                    if k2.chance(0.5) {
                        conds.push(second);
                    } else {
                        conds.insert(0, second);
                    }
                }
            }
            let sub = PolicyM { match_other: conds, apply_range: vec![(hs[a].into(), hs[b].into())], ..Default::default() };
            let at = k.below(outer.policies.len() as u64 + 1) as usize;
            outer.policies.insert(at, sub);
        }
        /* allow-lists: a range pool loses its match-subnet and serves only the machines its
         * sub-policies name; everybody else on that LAN matches no pool at all */
        for (li, lan) in lans.iter().enumerate() {
            let net = Ipv4Addr::from(lan.network());
            let listed: Vec<&ClientSpec> = clients.iter().filter(|c| c.lan == li && c.chaddr.len() == 6).collect();
            for p in policies.iter_mut().filter(|p| p.match_subnet == Some((net, lan.plen)) && !p.apply_range.is_empty() && p.policies.is_empty() && p.match_other.is_empty()) {
                if listed.is_empty() || !k.chance(0.3) {
                    continue;
                }
                p.match_subnet = None;
                for c in listed.iter().take(k.range(1, 2) as usize) {
                    p.policies.push(PolicyM { match_chaddr: Some(c.chaddr.clone()), ..Default::default() });
                }
                {
                    /* ... or that send two options at once: a request carrying only one of the
                     * two matches no pool and must be ignored (own stream) */
                    let mut k2 = Rng::new(key ^ u32::from(lan.server_ip) as u64, "cfg-allow-list-two-options");
                    if k2.chance(0.5) {
                        let mut conds = vec![("class-id".to_string(), 60u8, Some("pxe".to_string())), ("user-class".to_string(), 77u8, Some("lab".to_string()))];
                        if k2.chance(0.5) {
                            conds.reverse();
                        }
                        p.policies.push(PolicyM { match_other: conds, ..Default::default() });
                    }
                }
            }
        }
        /* the keys of some policies in another order (sub-policies before the addresses...) */
        fn reorder(p: &mut PolicyM, k: &mut Rng) {
            if k.chance(0.3) {
                p.key_order = k.range(1, 1 << 40);
            }
            for q in p.policies.iter_mut() {
                reorder(q, k);
            }
        }
        for p in policies.iter_mut() {
            reorder(p, &mut k);
        }
        /* match-subnet written as a supernet of the LAN, with host bits set, as the server's
         * /32, or as a neighbouring network (which matches nobody on this LAN) */
        for lan in lans.iter() {
            let net = Ipv4Addr::from(lan.network());
            for p in policies.iter_mut().filter(|p| p.match_subnet == Some((net, lan.plen))) {
                if !k.chance(0.25) {
                    continue;
                }
                /* (erbium rejects a match-subnet with host bits set, so every form is a network) */
                p.match_subnet = Some(match k.below(4) {
                    0 | 1 => {
                        let l = lan.plen.saturating_sub(k.range(1, 8) as u8).max(8);
                        (Ipv4Addr::from(lan.network() & mask(l)), l)
                    }
                    2 => (lan.server_ip, 32),
                    _ => (Ipv4Addr::from(lan.network().wrapping_add(1u32 << (32 - lan.plen as u32))), lan.plen),
                });
            }
        }
    }
    {
        /* nested prefixes in the top-level `addresses`: a wider prefix around a LAN's own one,
         * written after it (the LAN's own prefix is the first match) or before it (the wider one
         * is); the order they are written in decides, not their size (own stream of draws) */
        let key = lans.iter().fold(addresses.len() as u64 + 7, |a, l| a.wrapping_mul(31).wrapping_add(u32::from(l.server_ip) as u64));
        let mut k = Rng::new(key, "cfg-nested-addresses");
        for lan in lans.iter() {
            if lan.plen < 22 || !k.chance(0.12) {
                continue;
            }
            let Some(at) = addresses.iter().position(|(a, l): &(Ipv4Addr, u8)| *l == lan.plen && u32::from(*a) & mask(*l) == lan.network()) else { continue };
            let wl = (lan.plen - k.range(1, 4) as u8).max(18);
            let wider = (Ipv4Addr::from(lan.network() & mask(wl)), wl);
            if k.chance(0.6) {
                addresses.insert(at + 1, wider);
            } else {
                addresses.insert(at, wider);
            }
        }
    }
    ConfModel {
        addresses,
        policies,
        captive_portal: if tracers && r.chance(0.7) {
            let long = r.chance(0.4);
            Some(gen_url(r, long))
        } else {
            None
        },
        dns_search: if tracers && r.chance(0.6) {
            let many = if r.chance(0.3) { 24 } else { 3 };
            let n = r.range(1, many);
            (0..n).map(|i| format!("d{}{}.example.org", i, "x".repeat(r.range(0, 20) as usize))).collect()
        } else {
            vec![]
        },
        api_listeners: vec!["/var/lib/erbium/control".into(), "127.0.0.1:9968".into(), "[::1]:9968".into(), "@erbium-abstract".into()],
        acls: None,
    }
}

fn flags_value(r: &mut Rng) -> u16 {
    match r.below(10) {
        0..=3 => 0,
        4..=5 => 0x8000,
        6 => 1 << r.below(16),
        7 => 0x0080,
        8 => !(1u16 << r.below(16)),
        _ => r.below(65536) as u16,
    }
}

/// A hostile datagram for UDP port 67: random octets, or a valid request with
/// boundary values written into its length, count and address fields.
pub fn hostile_dhcp(r: &mut Rng) -> Vec<u8> {
    if r.chance(0.12) {
        let n = *r.pick(&[0usize, 1, 2, 43, 235, 236, 239, 240, 241, 300, 576, 1500, 4000]);
        return r.bytes(n);
    }
    let mut m = crate::codec_dhcp::DhcpMsg::request(r.next_u64() as u32, &[2, 0, 0, 0, 0x66, r.below(250) as u8], 6);
    m.options.push((53, vec![*r.pick(&[1u8, 3, 3, 1, 8, 7, 4])]));
    if r.chance(0.5) {
        m.options.push((55, vec![1, 3, 6, 15, 28, 51, 54, 114, 119, 121, 33, 26]));
    }
    let weird_len = |r: &mut Rng| -> usize { *r.pick(&[0usize, 1, 2, 3, 4, 5, 7, 8, 9, 17, 63, 64, 127, 254, 255]) };
    for _ in 0..r.range(1, 4) {
        /* options whose decoders have structure, with every awkward length */
        let code = *r.pick(&[1u8, 3, 6, 12, 15, 33, 50, 51, 53, 54, 55, 57, 60, 61, 81, 119, 121, 121, 121, 252, 43, 82, 77, 255 - 1]);
        let n = weird_len(r);
        let mut v = r.bytes(n);
        if code == 121 || code == 33 {
            /* classless routes: prefix length octets at the boundaries */
            for b in v.iter_mut().step_by(*r.pick(&[1usize, 5, 9])) {
                *b = *r.pick(&[0u8, 1, 8, 24, 31, 32, 33, 63, 64, 65, 128, 255]);
            }
        }
        if code == 119 {
            /* search list: label lengths and compression pointers */
            for b in v.iter_mut().step_by(*r.pick(&[1usize, 2, 3])) {
                *b = *r.pick(&[0u8, 1, 63, 64, 0xc0, 0xc1, 0xff, 0x80]);
            }
        }
        m.options.push((code, v));
    }
    if r.chance(0.3) {
        m.hlen = *r.pick(&[0u8, 1, 5, 7, 15, 16, 17, 128, 255]);
    }
    if r.chance(0.1) {
        m.htype = r.below(256) as u8;
    }
    let mut b = m.encode();
    match r.below(10) {
        0 => {
            /* every truncation point is reachable over the seeds */
            let cut = r.below(b.len() as u64 + 1) as usize;
            b.truncate(cut);
        }
        1 => {
            b.pop(); /* no End option */
        }
        2 => {
            /* an option whose declared length runs past the end */
            b.pop();
            b.extend_from_slice(&[*r.pick(&[12u8, 61, 121, 119, 50]), *r.pick(&[1u8, 4, 200, 255])]);
        }
        3 => {
            let i = 240 + r.below((b.len() - 240) as u64) as usize;
            b[i] = *r.pick(&[0u8, 1, 254, 255]);
        }
        4 => {
            let i = r.below(b.len() as u64) as usize;
            b[i] ^= 1 << r.below(8);
        }
        5 => {
            b[236] ^= 0xff; /* magic cookie */
        }
        _ => (),
    }
    b
}

struct Profile {
    lans: &'static [usize],
    p_roam: f64,
    p_same_instant: f64,
    w_dhcp: u64,
    w_clock: u64,
    w_restart: u64,
    w_swap: u64,
    w_http: u64,
    w_diskfault: u64,
    w_crash: u64,
    w_raw: u64,
    tracers: bool,
    nasty: f64,
    two_configs: f64,
    rhythm: bool,
    odd_hlen: f64,
}

fn profile(shape: &str) -> Profile {
    let base = Profile {
        lans: &[1, 1, 2, 2, 3],
        p_roam: 0.08,
        p_same_instant: 0.0,
        w_dhcp: 78,
        w_clock: 6,
        w_restart: 5,
        w_swap: 2,
        w_http: 4,
        w_diskfault: 2,
        w_crash: 0,
        w_raw: 0,
        tracers: true,
        nasty: 0.3,
        two_configs: 0.5,
        rhythm: false,
        odd_hlen: 0.1,
    };
    match shape {
        "concurrent" => Profile { p_same_instant: 0.5, w_http: 0, w_diskfault: 0, ..base },
        "restart" => Profile { w_restart: 14, w_swap: 4, w_http: 0, w_diskfault: 0, ..base },
        "crash" => Profile { w_crash: 14, w_restart: 2, w_http: 0, w_diskfault: 0, two_configs: 0.0, ..base },
        "roam" => Profile { lans: &[2, 2, 3], p_roam: 0.45, w_http: 0, w_diskfault: 0, w_restart: 2, tracers: false, ..base },
        "rhythm" => Profile { lans: &[1], w_dhcp: 90, w_clock: 8, w_restart: 2, w_swap: 0, w_http: 0, w_diskfault: 0, rhythm: true, tracers: false, two_configs: 0.0, odd_hlen: 0.0, ..base },
        "wire" => Profile { w_restart: 1, w_http: 0, w_diskfault: 0, tracers: true, odd_hlen: 0.25, ..base },
        "listing" => Profile { w_http: 22, w_dhcp: 64, w_diskfault: 0, nasty: 1.0, tracers: false, ..base },
        "poolchange" => Profile { lans: &[1, 1, 2], w_swap: 16, w_restart: 4, w_http: 0, w_diskfault: 0, w_clock: 3, two_configs: 1.0, tracers: false, odd_hlen: 0.0, ..base },
        "pairbase" => Profile { w_restart: 0, w_swap: 0, w_http: 0, w_diskfault: 0, two_configs: 0.0, ..base },
        "hostile" => Profile { w_raw: 40, w_dhcp: 45, w_http: 0, w_diskfault: 0, ..base },
        _ => base,
    }
}

pub fn generate(seed: u64, opts: &GenOpts) -> PlanA {
    if opts.shape.starts_with("drain") {
        return generate_drain(seed, opts.shape == "drain-large");
    }
    if opts.shape == "acl-http" {
        return generate_acl_http(seed, opts.thorough);
    }
    if opts.shape == "cp-history" || opts.shape == "images" {
        return generate_small(seed, opts.shape == "images");
    }
    if opts.shape == "growth" {
        return generate_growth(seed, opts.thorough);
    }
    if opts.shape == "restart-pair" {
        let mut p = generate(seed, &GenOpts { shape: "pairbase", thorough: opts.thorough });
        p.shape = "restart-pair".into();
        let mut r = Rng::new(seed, "pair");
        /* split between two instants */
        let cands: Vec<usize> = (1..p.steps.len()).filter(|i| p.steps[*i].at_ms > p.steps[*i - 1].at_ms + 10).collect();
        p.pair_split = if cands.is_empty() { None } else { Some(*r.pick(&cands)) };
        return p;
    }
    let mut r = Rng::new(seed, "plan-a");
    let shape = opts.shape;
    let pf = profile(shape);
    let nlans = *r.pick(pf.lans);
    let lans: Vec<Lan> = (0..nlans).map(|i| gen_lan(&mut r, i, false)).collect();
    let nasty = r.chance(pf.nasty);
    let nclients = if shape == "poolchange" { r.range(1, 2) } else { r.range(1, if opts.thorough { 8 } else { 5 }) } as usize;
    let mut clients: Vec<ClientSpec> = (0..nclients)
        .map(|i| {
            let hlen = if !r.chance(pf.odd_hlen) { 6 } else { r.range(0, 16) as usize };
            let mut chaddr = vec![0x02, 0x00, 0x00, 0x00, 0x01, i as u8 + 1];
            chaddr.resize(hlen.max(6), 0x40 + i as u8);
            chaddr.truncate(hlen);
            ClientSpec {
                chaddr,
                client_id: if r.chance(0.4) { Some(gen_bytes(&mut r, 255, nasty)) } else { None },
                hostname: if r.chance(0.6) { Some(gen_bytes(&mut r, 255, nasty)) } else { None },
                lan: r.below(nlans as u64) as usize,
            }
        })
        .collect();
    /* sometimes two machines present the same client identifier */
    if clients.len() >= 2 && r.chance(0.15) {
        let id = clients[0].client_id.clone().unwrap_or_else(|| vec![1, 2, 3, 4]);
        clients[0].client_id = Some(id.clone());
        clients[1].client_id = Some(id);
    }
    let ncfg = if r.chance(pf.two_configs) { if shape == "poolchange" || r.chance(0.3) { 3 } else { 2 } } else { 1 };
    let mut configs: Vec<ConfModel> = (0..ncfg).map(|_| gen_config(&mut r, &lans, &clients, true, pf.tracers)).collect();
    if shape == "poolchange" {
        /* every LAN served from apply-range pools: halves and the whole */
        for c in configs.iter_mut() {
            c.addresses.clear();
            c.policies.clear();
            for lan in &lans {
                let hs: Vec<u32> = hosts(lan.network(), lan.plen).into_iter().collect();
                let mid = (hs.len() / 2).max(1);
                let (lo, hi) = match r.below(3) {
                    0 => (hs[0], hs[mid - 1]),
                    1 if mid < hs.len() => (hs[mid], *hs.last().unwrap()),
                    _ => (hs[0], *hs.last().unwrap()),
                };
                c.policies.push(PolicyM { match_subnet: Some((Ipv4Addr::from(lan.network()), lan.plen)), apply_range: vec![(lo.into(), hi.into())], ..Default::default() });
            }
        }
    }

    /* every single address written as an apply-address anywhere, in any configuration */
    fn reserved_of(p: &PolicyM, out: &mut Vec<u32>) {
        out.extend(p.apply_address.iter().map(|a| u32::from(*a)));
        for q in &p.policies {
            reserved_of(q, out);
        }
    }
    let mut reserved: Vec<u32> = vec![];
    for c in &configs {
        for p in &c.policies {
            reserved_of(p, &mut reserved);
        }
    }

    let mut steps: Vec<Step> = vec![];
    let mut t: u64 = 1000;
    let nsteps = r.range(6, if opts.thorough { 60 } else { 30 }) as usize;
    let same_instant_run = pf.p_same_instant > 0.0 || (shape == "mixed" && r.chance(0.25));
    let p_same = if pf.p_same_instant > 0.0 { pf.p_same_instant } else { 0.1 };
    let mut xid = 0x1000_0000u32 | ((seed as u32) << 8 & 0x0fff_ff00);
    let total_w = pf.w_dhcp + pf.w_clock + pf.w_restart + pf.w_swap + pf.w_http + pf.w_diskfault + pf.w_crash + pf.w_raw;
    for _ in 0..nsteps {
        /* time between steps: from the same instant to days */
        let gap = if same_instant_run && r.chance(p_same) {
            0
        } else if shape == "poolchange" {
            /* short gaps: leases acquired under one pool are still running under the next */
            *r.pick(&[5u64, 500, 2_000, 10_000, 30_000, 60_000, 120_000, 400_000])
        } else if pf.rhythm {
            *r.pick(&[1_000u64, 1_000, 30_000, 149_000, 150_000, 151_000, 299_000, 300_000, 301_000, 600_000, 3_600_000, 43_200_000, 86_399_000, 86_400_000, 86_401_000, 172_800_000])
        } else {
            match r.below(12) {
                0..=3 => r.range(1, 5_000),
                4..=6 => r.range(5_000, 400_000),
                7..=8 => r.range(250_000, 350_000),
                9 => r.range(400_000, 4_000_000),
                10 => r.range(4_000_000, 90_000_000),
                _ => r.range(80_000_000, 200_000_000),
            }
        };
        t += gap;
        let mut roll = r.below(total_w);
        let mut pick = |w: u64| {
            if roll < w {
                roll = u64::MAX;
                true
            } else {
                roll -= w;
                false
            }
        };
        let kind = if pick(pf.w_dhcp) {
            let ci = r.below(clients.len() as u64) as usize;
            let c = &clients[ci];
            let lan = if r.chance(pf.p_roam) { r.below(nlans as u64) as usize } else { c.lan };
            let mtype = if pf.rhythm {
                Some(*r.pick(&[1u8, 3, 3, 3]))
            } else {
                match r.below(40) {
                    0..=14 => Some(1u8),
                    15..=31 => Some(3),
                    32 => Some(4),
                    33 => Some(7),
                    34 => Some(8),
                    35 => Some(2),
                    36 => Some(5),
                    37 => Some(r.below(256) as u8),
                    38 => None,
                    _ => Some(1),
                }
            };
            let any_host = |r: &mut Rng| -> Ipv4Addr {
                let l = &lans[lan];
                let hs: Vec<u32> = hosts(l.network(), l.plen).into_iter().collect();
                let here: Vec<u32> = reserved.iter().copied().filter(|a| hs.contains(a)).collect();
                if !here.is_empty() && r.chance(0.3) {
                    return Ipv4Addr::from(*r.pick(&here));
                }
                match r.below(8) {
                    0 => Ipv4Addr::from(l.network()),
                    1 => Ipv4Addr::from(l.broadcast()),
                    2 => l.server_ip,
                    3 => Ipv4Addr::new(203, 0, 113, r.below(255) as u8),
                    _ => Ipv4Addr::from(*r.pick(&hs)),
                }
            };
            let (ciaddr, requested) = match (mtype, r.below(10)) {
                (Some(1), 0..=5) => (AddrRef::None, AddrRef::None),
                (Some(1), 6..=7) => (AddrRef::None, AddrRef::LastAcked),
                (Some(1), _) => (AddrRef::None, AddrRef::Fixed(any_host(&mut r))),
                (Some(3), 0..=4) => (AddrRef::None, AddrRef::LastOffered),
                (Some(3), 5..=6) => (AddrRef::LastAcked, AddrRef::None),
                (Some(3), 7) => (AddrRef::None, AddrRef::Fixed(any_host(&mut r))),
                (Some(3), 8) => (AddrRef::Fixed(any_host(&mut r)), AddrRef::None),
                (Some(3), _) => (AddrRef::None, AddrRef::None),
                (_, 0..=4) => (AddrRef::LastAcked, AddrRef::None),
                (_, 5..=7) => (AddrRef::None, AddrRef::LastAcked),
                _ => (AddrRef::None, AddrRef::None),
            };
            let server_id = match r.below(10) {
                0..=4 => None,
                5..=6 => Some(SidRef::FromLastReply),
                7 => Some(SidRef::ThisIface),
                8 => Some(if nlans > 1 { SidRef::OtherIface } else { SidRef::Foreign(Ipv4Addr::new(198, 51, 100, 7)) }),
                _ => Some(SidRef::Foreign(Ipv4Addr::new(198, 51, 100, r.below(255) as u8))),
            };
            let mut param_list = vec![1u8, 3, 6, 15, 28, 51, 54];
            if r.chance(0.7) {
                param_list.extend_from_slice(&[114, 119, 26]);
            }
            if r.chance(0.1) {
                let n = r.range(0, 40) as usize;
                param_list = r.bytes(n);
            }
            {
                /* a client that asks for everything there is */
                let mut k = Rng::new(xid as u64 ^ seed, "msg-ask-everything");
                if k.chance(0.12) {
                    param_list = (1u8..=254).collect();
                    if k.chance(0.5) {
                        k.shuffle(&mut param_list);
                    }
                }
            }
            let mut extra = vec![];
            if r.chance(0.15) {
                extra.push((60u8, gen_bytes(&mut r, 40, false)));
            }
            {
                /* options that match-<option> policies look at (own stream, keyed by the xid) */
                let mut k = Rng::new(xid as u64 ^ seed, "msg-match-option");
                if extra.is_empty() && k.chance(0.3) {
                    extra.push((60u8, k.pick(&[&b"pxe"[..], &b"pxe"[..], &b"PXE"[..], &b"px"[..], &b"pxe\0"[..]]).to_vec()));
                }
                if k.chance(0.15) {
                    extra.push((77u8, k.pick(&[&b"lab"[..], &b"lab"[..], &b"la"[..]]).to_vec()));
                }
            }
            if r.chance(0.05) {
                extra.push((r.range(62, 254) as u8, gen_bytes(&mut r, 255, true)));
            }
            xid = xid.wrapping_add(1);
            StepKind::Dhcp(MsgSpec {
                client: ci,
                lan,
                mtype,
                ciaddr,
                requested,
                server_id: if pf.rhythm { None } else { server_id },
                flags: flags_value(&mut r),
                giaddr: if r.chance(0.05) { Some(Ipv4Addr::new(10, 99, 0, r.range(1, 200) as u8)) } else { None },
                with_client_id: !r.chance(0.05),
                with_hostname: !r.chance(0.2),
                param_list,
                extra,
                xid,
                must_answer: false,
                split_opts: r.chance(0.06),
            })
        } else if pick(pf.w_clock) {
            StepKind::ClockJump(match r.below(6) {
                0 => -(r.range(1, 5) as i64),
                1 => r.range(1, 600) as i64,
                2 => r.range(250, 350) as i64,
                3 => r.range(3_000, 90_000) as i64,
                _ => r.range(80_000, 400_000) as i64,
            })
        } else if pick(pf.w_restart) {
            StepKind::Restart { cfg: r.below(ncfg as u64) as usize }
        } else if pick(pf.w_swap) {
            if ncfg < 2 {
                continue;
            }
            StepKind::SwapConfig { cfg: r.below(ncfg as u64) as usize }
        } else if pick(pf.w_http) {
            StepKind::Http {
                aim: *r.pick(&[0u8, 0, 1, 2, 2, 2, 3]),
                read_fault: {
                    let mut k = Rng::new(t ^ seed, "http-read-fault");
                    if pf.w_diskfault == 0 && shape != "listing" || !k.chance(0.12) { 0 } else { k.range(1, 3) as u32 }
                },
                path: r.pick(&["/api/v1/leases.json", "/api/v1/leases.json", "/metrics", "/metrics"]).to_string(),
                via: match r.below(8) {
                    0 => HttpVia::Tcp6,
                    1 => HttpVia::UnixAbstract,
                    2 => HttpVia::UnixPath,
                    3 => HttpVia::UnixUnnamed,
                    _ => HttpVia::Tcp4,
                },
                from: "127.0.0.1".into(),
            }
        } else if pick(pf.w_diskfault) {
            StepKind::DiskFault { k: r.range(1, 8), full: r.chance(0.3) }
        } else if pick(pf.w_crash) {
            StepKind::CrashAtCall(r.range(1, 14))
        } else if pick(pf.w_raw) {
            StepKind::Raw { lan: r.below(nlans as u64) as usize, data: hostile_dhcp(&mut r) }
        } else {
            continue;
        };
        steps.push(Step { at_ms: t, kind });
    }
    let mut configs = configs;
    let mut clients = clients;
    if pf.w_raw > 0 {
        /* liveness probes: a client with a reservation of its own asks right after
         * every hostile datagram and must be answered */
        let lan0 = &lans[0];
        let probe = ClientSpec { chaddr: vec![0x02, 0, 0, 0, 0x77, 0x01], client_id: None, hostname: None, lan: 0 };
        let hs: Vec<u32> = hosts(lan0.network(), lan0.plen).into_iter().filter(|a| *a != u32::from(lan0.server_ip)).collect();
        let reserved = Ipv4Addr::from(*r.pick(&hs));
        for c in configs.iter_mut() {
            c.addresses.retain(|(a, l)| u32::from(*a) & mask(*l) != lan0.network());
            /* nothing else may match on this LAN (match-subnet may be written as a supernet) */
            c.policies.retain(|p| p.match_subnet.map(|(n, l)| u32::from(n) & mask(l) != u32::from(lan0.server_ip) & mask(l)).unwrap_or(false));
            c.addresses.push((Ipv4Addr::from(lan0.network()), lan0.plen));
            c.policies.push(PolicyM {
                match_subnet: Some((Ipv4Addr::from(lan0.network()), lan0.plen)),
                policies: vec![PolicyM { match_chaddr: Some(probe.chaddr.clone()), apply_address: vec![reserved], ..Default::default() }],
                ..Default::default()
            });
        }
        clients.push(probe);
        let pi = clients.len() - 1;
        let mut out = vec![];
        for st in steps.into_iter() {
            let is_raw = matches!(st.kind, StepKind::Raw { .. });
            let at = st.at_ms;
            out.push(st);
            if is_raw {
                xid = xid.wrapping_add(1);
                out.push(Step {
                    at_ms: at + 1,
                    kind: StepKind::Dhcp(MsgSpec {
                        client: pi,
                        lan: 0,
                        mtype: Some(1),
                        ciaddr: AddrRef::None,
                        requested: AddrRef::None,
                        server_id: None,
                        flags: 0,
                        giaddr: None,
                        with_client_id: false,
                        with_hostname: false,
                        param_list: vec![1, 3, 51, 54],
                        extra: vec![],
                        xid,
                        must_answer: true,
                        split_opts: false,
                    }),
                });
            }
        }
        steps = out;
        /* keep instants strictly increasing where a probe was inserted */
        for i in 1..steps.len() {
            if steps[i].at_ms < steps[i - 1].at_ms {
                steps[i].at_ms = steps[i - 1].at_ms;
            }
        }
    }
    PlanA {
        seed,
        shape: shape.to_string(),
        lans,
        configs,
        clients,
        steps,
        wall_base: {
            /* now and then the history starts shortly before 2038-01-19 03:14:08 (2^31 seconds) */
            let mut k = Rng::new(seed, "plan-a-epoch");
            let w = 1_700_000_000 + r.below(200_000_000) as i64;
            if k.chance(0.04) { 2_147_483_648 - k.range(1, 200_000) as i64 } else { w }
        },
        yield_p: if same_instant_run { *r.pick(&[0.0, 0.2, 0.5]) } else { 0.0 },
        spurious_p: if r.chance(0.3) { 0.05 } else { 0.0 },
        eintr_p: if r.chance(0.3) { 0.05 } else { 0.0 },
        send_err_p: {
            let mut k = Rng::new(seed, "plan-a-send-err");
            if matches!(shape, "mixed" | "hostile" | "concurrent") && k.chance(0.15) { *k.pick(&[0.05, 0.2]) } else { 0.0 }
        },
        prefill: vec![],
        image: None,
        crash_at_total: None,
        pair_split: None,
    }
}

/// The drain shape (C02 "conversely" clause): fresh clients keep arriving
/// until the pool is exhausted; then exactly the documented set was leased.
/// C10: one or two clients renew again and again at instants chosen relative to the lease
/// they are predicted to hold (a fraction of it, its last second, just after it ran out,
/// long after), so that lease times grow to the ceiling, sit there, and collapse.
pub fn generate_growth(seed: u64, thorough: bool) -> PlanA {
    let mut p = generate(seed, &GenOpts { shape: "rhythm", thorough });
    p.shape = "growth".into();
    let mut r = Rng::new(seed, "plan-a-growth");
    let nclients = p.clients.len().min(if r.chance(0.7) { 1 } else { 2 });
    let mut steps: Vec<Step> = vec![];
    let mut t = 1000u64;
    let mut xid = 0x2000_0000u32 | ((seed as u32) << 8 & 0x0fff_ff00);
    let mut pred: Vec<u64> = vec![300; nclients];
    let mut mk = |client: usize, lan: usize, mtype: u8, ciaddr: AddrRef, requested: AddrRef, r: &mut Rng| {
        xid = xid.wrapping_add(1);
        StepKind::Dhcp(MsgSpec {
            client,
            lan,
            mtype: Some(mtype),
            ciaddr,
            requested,
            server_id: None,
            flags: if r.chance(0.3) { 0x8000 } else { 0 },
            giaddr: None,
            with_client_id: true,
            with_hostname: true,
            param_list: vec![1, 3, 6, 51, 54],
            extra: vec![],
            xid,
            must_answer: false,
            split_opts: false,
        })
    };
    for c in 0..nclients {
        let lan = p.clients[c].lan;
        steps.push(Step { at_ms: t, kind: mk(c, lan, 1, AddrRef::None, AddrRef::None, &mut r) });
        t += 200;
        steps.push(Step { at_ms: t, kind: mk(c, lan, 3, AddrRef::None, AddrRef::LastOffered, &mut r) });
        t += 200;
    }
    /* one more machine, which only ever asks for other clients' addresses */
    p.clients.truncate(nclients);
    p.clients.push(ClientSpec { chaddr: vec![0x02, 0, 0, 0, 0x66, 0x01], client_id: None, hostname: None, lan: p.clients[0].lan });
    let intruder = p.clients.len() - 1;
    let mut intruder_steps: Vec<Step> = vec![];
    let n = r.range(8, if thorough { 40 } else { 26 });
    for _ in 0..n {
        let c = r.below(nclients as u64) as usize;
        let lan = p.clients[c].lan;
        let lease = pred[c];
        let gap_s: u64 = match r.below(14) {
            0..=2 => lease / 2,
            3 => lease * 7 / 8,
            4..=5 => lease * 99 / 100,
            6 => lease.saturating_sub(1),
            7 => lease,
            8 => lease + 1,
            9 => lease * 3 / 2,
            10 => lease * 2 + r.range(0, 2),
            11 => r.range(1, 20),
            12 => lease / 3,
            _ => r.range(1, lease.max(2) * 2),
        }
        .max(1);
        t += gap_s * 1000;
        /* what the server is expected to do (only steers the next gap; the oracle does not use it) */
        pred[c] = if gap_s <= lease { (3 * gap_s).clamp(300, 86400) } else { (2 * lease).clamp(300, 86400) };
        let kind = match r.below(10) {
            0..=4 => mk(c, lan, 3, AddrRef::LastAcked, AddrRef::None, &mut r),
            5..=6 => mk(c, lan, 3, AddrRef::None, AddrRef::LastAcked, &mut r),
            7..=8 => mk(c, lan, 1, AddrRef::None, AddrRef::None, &mut r),
            _ => mk(c, lan, 1, AddrRef::None, AddrRef::LastAcked, &mut r),
        };
        steps.push(Step { at_ms: t, kind });
        {
            /* a stranger names the address this client has just been given again: in the same
             * second, a second later, or well into the lease */
            let mut k = Rng::new(seed ^ t, "growth-intruder");
            if k.chance(0.3) {
                let dt = *k.pick(&[5u64, 5, 400, 1_000, 1_500, (pred[c] * 1000) / 3]);
                let (mt, ci, rq) = if k.chance(0.5) { (1u8, AddrRef::None, AddrRef::AckedBy(c)) } else if k.chance(0.5) { (3u8, AddrRef::None, AddrRef::AckedBy(c)) } else { (3u8, AddrRef::AckedBy(c), AddrRef::None) };
                intruder_steps.push(Step { at_ms: t + dt, kind: mk(intruder, lan, mt, ci, rq, &mut r) });
            }
        }
        if r.chance(0.06) {
            t += 50;
            steps.push(Step { at_ms: t, kind: StepKind::Restart { cfg: 0 } });
        }
        if r.chance(0.04) {
            t += 50;
            steps.push(Step { at_ms: t, kind: StepKind::ClockJump(*r.pick(&[-2i64, 3, 100, 4000])) });
        }
    }
    steps.extend(intruder_steps);
    steps.sort_by_key(|s| s.at_ms);
    p.steps = steps;
    p.pair_split = None;
    p
}

pub fn generate_drain(seed: u64, large: bool) -> PlanA {
    let mut r = Rng::new(seed, "plan-a-drain");
    let lan = gen_lan(&mut r, 0, large);
    let lans = vec![lan.clone()];
    let net = Ipv4Addr::from(lan.network());
    let written = if r.chance(0.3) { lan.server_ip } else { net };
    let hs: Vec<u32> = hosts(lan.network(), lan.plen).into_iter().collect();
    let mut conf = ConfModel {
        addresses: vec![],
        policies: vec![],
        captive_portal: None,
        dns_search: vec![],
        api_listeners: vec!["127.0.0.1:9968".into()],
        acls: None,
    };
    match if large { r.below(2) } else { r.below(4) } {
        0 => conf.addresses.push((written, lan.plen)),
        1 => conf.policies.push(PolicyM { match_subnet: Some((net, lan.plen)), apply_subnet: vec![(net, lan.plen)], ..Default::default() }),
        2 => {
            let (lo, hi) = if r.chance(0.5) || hs.len() < 3 {
                (hs[0], *hs.last().unwrap())
            } else {
                let a = r.below(hs.len() as u64) as usize;
                let b = r.range(a as u64, hs.len() as u64 - 1) as usize;
                (hs[a], hs[b])
            };
            conf.policies.push(PolicyM { match_subnet: Some((net, lan.plen)), apply_range: vec![(lo.into(), hi.into())], ..Default::default() });
        }
        _ => {
            /* addresses with a reserve-only hole */
            conf.addresses.push((written, lan.plen));
            let a = *r.pick(&hs);
            if a != u32::from(lan.server_ip) {
                conf.policies.push(PolicyM {
                    match_subnet: Some((net, lan.plen)),
                    policies: vec![PolicyM { apply_address: vec![a.into()], ..Default::default() }],
                    ..Default::default()
                });
            }
        }
    }
    let probe_chaddr = [0x02u8, 0, 0, 0, 9, 9];
    let d: Vec<u32> = conf.allowed(&probe_chaddr, &lan).map(|s| s.into_iter().collect()).unwrap_or_default();
    let wall_base = 1_700_000_000 + r.below(200_000_000) as i64;
    /* large prefixes: occupy all but a few addresses through the harness so that
     * only the interesting ones (always the first and last host) remain */
    let mut prefill = vec![];
    let mut remaining: Vec<u32> = d.clone();
    if large {
        let mut keep: std::collections::BTreeSet<u32> = Default::default();
        if let (Some(f), Some(l)) = (d.first(), d.last()) {
            keep.insert(*f);
            keep.insert(*l);
        }
        for _ in 0..r.range(0, 4) {
            keep.insert(*r.pick(&d));
        }
        for (i, a) in d.iter().enumerate() {
            if !keep.contains(a) {
                let id = vec![0xee, (i >> 16) as u8, (i >> 8) as u8, i as u8];
                prefill.push((Ipv4Addr::from(*a), id, wall_base - 10, wall_base + 10_000_000));
            }
        }
        remaining = keep.into_iter().collect();
    }
    let n = remaining.len() + 4;
    let clients: Vec<ClientSpec> = (0..n)
        .map(|i| ClientSpec { chaddr: vec![0x02, 0x00, 0x00, 0x07, (i >> 8) as u8, i as u8], client_id: None, hostname: None, lan: 0 })
        .collect();
    let mut steps = vec![];
    let mut t = 1000u64;
    let two_phase = r.chance(0.5);
    for i in 0..n {
        t += r.range(1, 2000);
        let mk = |mtype: u8, requested: AddrRef, xid: u32| MsgSpec {
            client: i,
            lan: 0,
            mtype: Some(mtype),
            ciaddr: AddrRef::None,
            requested,
            server_id: None,
            flags: 0,
            giaddr: None,
            with_client_id: false,
            with_hostname: false,
            param_list: vec![1, 3, 51, 54],
            extra: vec![],
            xid,
            must_answer: false,
            split_opts: false,
        };
        steps.push(Step { at_ms: t, kind: StepKind::Dhcp(mk(1, AddrRef::None, 0x2000_0000 + 2 * i as u32)) });
        if two_phase {
            t += 1;
            steps.push(Step { at_ms: t, kind: StepKind::Dhcp(mk(3, AddrRef::LastOffered, 0x2000_0001 + 2 * i as u32)) });
        }
    }
    PlanA {
        seed,
        shape: if large { "drain-large".into() } else { "drain".into() },
        lans,
        configs: vec![conf],
        clients,
        steps,
        wall_base,
        yield_p: 0.0,
        spurious_p: 0.0,
        eintr_p: 0.0,
        send_err_p: 0.0,
        prefill,
        image: None,
        crash_at_total: None,
        pair_split: None,
    }
}

fn gen_image_rows(r: &mut Rng, lan: &Lan, clients: &[ClientSpec], wall: i64, arbitrary: bool) -> Vec<ImageRow> {
    let hs: Vec<u32> = hosts(lan.network(), lan.plen).into_iter().collect();
    let mut rows: Vec<ImageRow> = vec![];
    for _ in 0..r.range(0, 6) {
        let a = Ipv4Addr::from(*r.pick(&hs)).to_string();
        if rows.iter().any(|x| x.address == a) {
            continue;
        }
        let clientid = match r.below(5) {
            0 if !clients.is_empty() => Some(r.pick(clients).chaddr.clone()),
            1 if arbitrary => None,
            2 => Some(vec![]),
            _ => Some(gen_bytes(r, 40, true)),
        };
        let (start, expiry) = if arbitrary && r.chance(0.4) {
            /* any u32 values, including expiry before start */
            /* (rows an erbium could have written: expiry is never before start) */
            let pickv = |r: &mut Rng| *r.pick(&[0i64, 1, 0x7fff_ffff, 0xffff_ffff, wall, wall - 1, wall + 1, wall + 86400]);
            let (a, b) = (pickv(r), pickv(r));
            (a.min(b), a.max(b))
        } else {
            let s = wall - r.range(0, 100_000) as i64;
            (s, s + r.range(300, 86400) as i64)
        };
        rows.push(ImageRow { address: a, clientid, start, expiry });
    }
    rows
}

/// Small histories for the crash-point enumeration and the image checks:
/// one LAN, one or two clients, at most three allocations.
pub fn generate_small(seed: u64, images: bool) -> PlanA {
    let mut r = Rng::new(seed, "plan-a-small");
    let lan = gen_lan(&mut r, 0, false);
    let clients: Vec<ClientSpec> = (0..r.range(1, 2) as usize)
        .map(|i| ClientSpec { chaddr: vec![0x02, 0, 0, 0, 0x21, i as u8 + 1], client_id: if r.chance(0.3) { Some(gen_bytes(&mut r, 20, false)) } else { None }, hostname: Some(b"host".to_vec()), lan: 0 })
        .collect();
    let conf = ConfModel {
        addresses: vec![(Ipv4Addr::from(lan.network()), lan.plen)],
        policies: vec![],
        captive_portal: None,
        dns_search: vec![],
        api_listeners: vec!["127.0.0.1:9968".into()],
        acls: None,
    };
    let wall_base = 1_700_000_000 + r.below(200_000_000) as i64;
    let image = match (images, r.below(if images { 5 } else { 6 })) {
        (true, 0) => Some(Image::Newer { version: *r.pick(&[2i64, 3, 255, 0x7fff_ffff, i64::MAX]), rows: gen_image_rows(&mut r, &lan, &clients, wall_base, false) }),
        (_, 1) => Some(Image::V0 { rows: gen_image_rows(&mut r, &lan, &clients, wall_base, images), version_table: true, version_row: true }),
        (_, 2) => Some(Image::V0 { rows: gen_image_rows(&mut r, &lan, &clients, wall_base, images), version_table: false, version_row: false }),
        (_, 3) => Some(Image::V0 { rows: gen_image_rows(&mut r, &lan, &clients, wall_base, images), version_table: true, version_row: false }),
        _ => None,
    };
    let mut steps = vec![];
    let mut t = 1000u64;
    let mut xid = 0x3000_0000u32;
    for _ in 0..r.range(1, 3) {
        t += *r.pick(&[1u64, 500, 2_000, 400_000]);
        let ci = r.below(clients.len() as u64) as usize;
        let (mtype, requested) = if r.chance(0.5) { (1u8, AddrRef::None) } else { (3u8, AddrRef::LastOffered) };
        xid += 1;
        steps.push(Step {
            at_ms: t,
            kind: StepKind::Dhcp(MsgSpec {
                client: ci,
                lan: 0,
                mtype: Some(mtype),
                ciaddr: AddrRef::None,
                requested,
                server_id: None,
                flags: 0,
                giaddr: None,
                with_client_id: true,
                with_hostname: true,
                param_list: vec![1, 3, 51, 54],
                extra: vec![],
                xid,
                must_answer: false,
                split_opts: false,
            }),
        });
    }
    PlanA {
        seed,
        shape: if images { "images".into() } else { "cp-history".into() },
        lans: vec![lan],
        configs: vec![conf],
        clients,
        steps,
        wall_base,
        yield_p: 0.0,
        spurious_p: 0.0,
        eintr_p: 0.0,
        send_err_p: 0.0,
        prefill: vec![],
        image,
        crash_at_total: None,
        pair_split: None,
    }
}

pub fn lan_v6(l: &Lan) -> std::net::Ipv6Addr {
    std::net::Ipv6Addr::new(0x2001, 0xdb8, l.ifidx as u16, 0, 0, 0, 0, 1)
}

/// An address at or next to an edge of a written prefix (or inside it).
pub fn edge_address(r: &mut Rng, prefix: &str) -> Option<std::net::IpAddr> {
    let (a, l) = prefix.split_once('/')?;
    let len: u32 = l.parse().ok()?;
    match a.parse::<std::net::IpAddr>().ok()? {
        std::net::IpAddr::V4(n) => {
            let m = if len == 0 { 0 } else { !0u32 << (32 - len.min(32)) };
            let lo = u32::from(n) & m;
            let hi = lo | !m;
            let v = match r.below(6) {
                0 => lo,
                1 => hi,
                2 => lo.wrapping_sub(1),
                3 => hi.wrapping_add(1),
                4 => u32::from(n),
                _ => lo.wrapping_add(r.below((hi - lo) as u64 + 1) as u32),
            };
            Some(std::net::IpAddr::V4(Ipv4Addr::from(v)))
        }
        std::net::IpAddr::V6(n) => {
            let m = if len == 0 { 0 } else { !0u128 << (128 - len.min(128)) };
            let lo = u128::from(n) & m;
            let hi = lo | !m;
            let v = match r.below(5) {
                0 => lo,
                1 => hi,
                2 => lo.wrapping_sub(1),
                3 => hi.wrapping_add(1),
                _ => u128::from(n),
            };
            Some(std::net::IpAddr::V6(std::net::Ipv6Addr::from(v)))
        }
    }
}

/// The HTTP half of C08: arbitrary ACL lists, API requests from sources
/// inside, outside and at the edges of every prefix, over TCP (IPv4, IPv6,
/// IPv4 on a dual-stack listener) and the unix sockets.
pub fn generate_acl_http(seed: u64, thorough: bool) -> PlanA {
    let mut r = Rng::new(seed, "plan-a-acl");
    let lans: Vec<Lan> = (0..r.range(1, 2) as usize).map(|i| gen_lan(&mut r, i, false)).collect();
    let mut pool4: Vec<Ipv4Addr> = lans.iter().map(|l| l.server_ip).collect();
    pool4.extend([Ipv4Addr::LOCALHOST, Ipv4Addr::new(203, 0, 113, 9), Ipv4Addr::new(10, 0, 0, 1)]);
    let mut pool6: Vec<std::net::Ipv6Addr> = lans.iter().map(lan_v6).collect();
    pool6.extend([std::net::Ipv6Addr::LOCALHOST, "2001:db8:ffff::5".parse().unwrap()]);
    let dual = r.chance(0.5);
    let mut listeners: Vec<String> = vec!["/var/lib/erbium/control".into(), "@erbium-abstract".into()];
    if dual {
        listeners.push("[::]:9968".into());
    } else {
        listeners.push("0.0.0.0:9968".into());
        listeners.push(format!("[{}]:9968", lan_v6(&lans[0])));
        listeners.push("[::1]:9968".into());
    }
    let acls = if r.chance(0.12) { None } else { Some(crate::acl_model::gen_acls(&mut r, &pool4, &pool6)) };
    let conf = ConfModel {
        addresses: lans.iter().map(|l| (if r.chance(0.4) { l.server_ip } else { Ipv4Addr::from(l.network()) }, l.plen)).collect(),
        policies: vec![],
        captive_portal: None,
        dns_search: vec![],
        api_listeners: listeners,
        acls: acls.clone(),
    };
    let prefixes: Vec<String> = match &acls {
        Some(a) => a.iter().flat_map(|x| x.subnets.clone().unwrap_or_default()).collect(),
        None => lans.iter().map(|l| format!("{}/{}", Ipv4Addr::from(l.network()), l.plen)).chain(["127.0.0.0/8".to_string(), "::1/128".to_string()]).collect(),
    };
    let mut steps = vec![];
    let mut t = 1000u64;
    /* one lease so that the listing is not empty */
    let clients = vec![ClientSpec { chaddr: vec![2, 0, 0, 0, 0x31, 1], client_id: None, hostname: Some(b"acl".to_vec()), lan: 0 }];
    steps.push(Step {
        at_ms: t,
        kind: StepKind::Dhcp(MsgSpec { client: 0, lan: 0, mtype: Some(1), ciaddr: AddrRef::None, requested: AddrRef::None, server_id: None, flags: 0, giaddr: None, with_client_id: false, with_hostname: true, param_list: vec![1, 51, 54], extra: vec![], xid: 0x4000_0001, must_answer: false, split_opts: false }),
    });
    for _ in 0..r.range(8, if thorough { 40 } else { 20 }) {
        t += r.range(5, 5000);
        let path = r.pick(&["/", "/metrics", "/api/v1/leases.json"]).to_string();
        let (from, to) = match r.below(10) {
            0 => ("unix:unnamed".to_string(), "unix:/var/lib/erbium/control".to_string()),
            1 => ("unix:/tmp/c.sock".to_string(), "unix:@erbium-abstract".to_string()),
            2 => ("unix:@client".to_string(), "unix:/var/lib/erbium/control".to_string()),
            _ => {
                let ip = if !prefixes.is_empty() && r.chance(0.7) {
                    let pf: String = r.pick(&prefixes[..]).clone();
                    edge_address(&mut r, &pf).unwrap_or(std::net::IpAddr::V4(Ipv4Addr::LOCALHOST))
                } else if r.chance(0.5) {
                    std::net::IpAddr::V4(*r.pick(&pool4))
                } else {
                    std::net::IpAddr::V6(*r.pick(&pool6))
                };
                /* a source must be a usable unicast address */
                let ip = match ip {
                    std::net::IpAddr::V4(a) if a.is_unspecified() || a.is_broadcast() || a.is_multicast() => std::net::IpAddr::V4(Ipv4Addr::new(192, 0, 2, 77)),
                    std::net::IpAddr::V6(a) if a.is_unspecified() || a.is_multicast() || a.to_ipv4_mapped().is_some() => std::net::IpAddr::V6("2001:db8:ffff::77".parse().unwrap()),
                    x => x,
                };
                let port = r.range(1024, 65000);
                let to = match ip {
                    std::net::IpAddr::V4(_) => format!("{}:9968", if r.chance(0.5) { lans[0].server_ip } else { Ipv4Addr::LOCALHOST }),
                    std::net::IpAddr::V6(_) => format!("[{}]:9968", if r.chance(0.5) { lan_v6(&lans[0]) } else { std::net::Ipv6Addr::LOCALHOST }),
                };
                (std::net::SocketAddr::new(ip, port as u16).to_string(), to)
            }
        };
        steps.push(Step { at_ms: t, kind: StepKind::AclHttp { path, from, to } });
    }
    PlanA {
        seed,
        shape: "acl-http".into(),
        lans,
        configs: vec![conf],
        clients,
        steps,
        wall_base: 1_700_000_000 + r.below(200_000_000) as i64,
        yield_p: 0.0,
        spurious_p: 0.0,
        eintr_p: 0.0,
        send_err_p: 0.0,
        prefill: vec![],
        image: None,
        crash_at_total: None,
        pair_split: None,
    }
}
