//! Process-wide interposition of the clock and the system random source.
//!
//! The symbols defined here shadow libc's for the whole binary (std, tokio,
//! hyper, prometheus, rand all end up here).  They are inert until `arm()` is
//! called, which only ever happens in a fork()ed worker; the supervisor keeps
//! real time and real randomness.

use std::cell::Cell;
use std::sync::atomic::{AtomicBool, AtomicI64, AtomicU32, AtomicU64, Ordering};

static ARMED: AtomicBool = AtomicBool::new(false);
static RNG_ARMED: AtomicBool = AtomicBool::new(false);
static WALL_BASE_NS: AtomicI64 = AtomicI64::new(0);
static SKEW_NS: AtomicI64 = AtomicI64::new(0);
static MONO_BASE_NS: AtomicI64 = AtomicI64::new(1_000_000_000_000);
static T0: std::sync::Mutex<Option<tokio::time::Instant>> = std::sync::Mutex::new(None);
static RNG_KEY: AtomicU64 = AtomicU64::new(0);
static RNG_CTR: AtomicU64 = AtomicU64::new(0);
static QID_BITS: AtomicU32 = AtomicU32::new(16);
static QID_HIGH: std::sync::atomic::AtomicBool = std::sync::atomic::AtomicBool::new(false);

/// Low-entropy 4-byte draws come from the top of the range (0xffff_fff8..) instead of the
/// bottom: query ids at and next to 0xffff.
pub fn set_qid_high(high: bool) {
    QID_HIGH.store(high, Ordering::SeqCst);
}
pub static RANDOM_BYTES_SERVED: AtomicU64 = AtomicU64::new(0);

thread_local! {
    static IN_HOOK: Cell<bool> = const { Cell::new(false) };
}

/// Start serving simulated time and randomness.  Must be called from inside
/// the (paused) tokio runtime of the worker.
pub fn arm(seed: u64, wall_base_secs: i64, qid_bits: u32) {
    *T0.lock().unwrap() = Some(tokio::time::Instant::now());
    WALL_BASE_NS.store(wall_base_secs * 1_000_000_000, Ordering::SeqCst);
    SKEW_NS.store(0, Ordering::SeqCst);
    if !RNG_ARMED.load(Ordering::SeqCst) {
        arm_rng(seed);
    }
    QID_BITS.store(qid_bits, Ordering::SeqCst);
    ARMED.store(true, Ordering::SeqCst);
}

/// Start serving deterministic randomness (before the worker thread exists,
/// so that even its thread-local hasher keys are drawn from it).
pub fn arm_rng(seed: u64) {
    RNG_KEY.store(crate::rng::mix64(seed ^ 0x5eed_5eed_0bad_cafe), Ordering::SeqCst);
    RNG_CTR.store(0, Ordering::SeqCst);
    RNG_ARMED.store(true, Ordering::SeqCst);
}

pub fn is_armed() -> bool {
    ARMED.load(Ordering::SeqCst)
}

/// Move the wall clock relative to simulated time (clock jump fault).
pub fn add_skew_secs(delta: i64) {
    SKEW_NS.fetch_add(delta * 1_000_000_000, Ordering::SeqCst);
}

pub fn sim_elapsed_ns() -> i64 {
    let t0 = match T0.try_lock().ok().and_then(|g| *g) {
        Some(t) => t,
        None => return 0,
    };
    IN_HOOK.with(|h| {
        let was = h.replace(true);
        let d = tokio::time::Instant::now().saturating_duration_since(t0);
        h.set(was);
        d.as_nanos() as i64
    })
}

/// The wall clock as erbium sees it, in whole seconds.
pub fn wall_now_secs() -> i64 {
    (WALL_BASE_NS.load(Ordering::SeqCst) + SKEW_NS.load(Ordering::SeqCst) + sim_elapsed_ns())
        .div_euclid(1_000_000_000)
}

pub fn wall_now_ns() -> i64 {
    WALL_BASE_NS.load(Ordering::SeqCst) + SKEW_NS.load(Ordering::SeqCst) + sim_elapsed_ns()
}

unsafe fn real_clock_gettime(clk: libc::clockid_t, ts: *mut libc::timespec) -> libc::c_int {
    unsafe { libc::syscall(libc::SYS_clock_gettime, clk as libc::c_long, ts) as libc::c_int }
}

#[unsafe(no_mangle)]
pub unsafe extern "C" fn clock_gettime(clk: libc::clockid_t, ts: *mut libc::timespec) -> libc::c_int {
    let hooked = ARMED.load(Ordering::Relaxed) && IN_HOOK.try_with(|h| !h.get()).unwrap_or(false);
    if !hooked {
        return unsafe { real_clock_gettime(clk, ts) };
    }
    let ns = match clk {
        libc::CLOCK_REALTIME | libc::CLOCK_REALTIME_COARSE => wall_now_ns(),
        libc::CLOCK_MONOTONIC
        | libc::CLOCK_MONOTONIC_COARSE
        | libc::CLOCK_MONOTONIC_RAW
        | libc::CLOCK_BOOTTIME => MONO_BASE_NS.load(Ordering::Relaxed) + sim_elapsed_ns(),
        _ => return unsafe { real_clock_gettime(clk, ts) },
    };
    unsafe {
        (*ts).tv_sec = ns.div_euclid(1_000_000_000);
        (*ts).tv_nsec = ns.rem_euclid(1_000_000_000);
    }
    0
}

#[unsafe(no_mangle)]
pub unsafe extern "C" fn gettimeofday(tv: *mut libc::timeval, _tz: *mut libc::c_void) -> libc::c_int {
    let mut ts = libc::timespec { tv_sec: 0, tv_nsec: 0 };
    unsafe {
        clock_gettime(libc::CLOCK_REALTIME, &mut ts);
        if !tv.is_null() {
            (*tv).tv_sec = ts.tv_sec;
            (*tv).tv_usec = ts.tv_nsec / 1000;
        }
    }
    0
}

#[unsafe(no_mangle)]
pub unsafe extern "C" fn time(t: *mut libc::time_t) -> libc::time_t {
    let mut ts = libc::timespec { tv_sec: 0, tv_nsec: 0 };
    unsafe {
        clock_gettime(libc::CLOCK_REALTIME, &mut ts);
        if !t.is_null() {
            *t = ts.tv_sec;
        }
    }
    ts.tv_sec
}

fn fill_random(buf: &mut [u8]) {
    let key = RNG_KEY.load(Ordering::Relaxed);
    RANDOM_BYTES_SERVED.fetch_add(buf.len() as u64, Ordering::Relaxed);
    let four = buf.len() == 4;
    for chunk in buf.chunks_mut(8) {
        let n = RNG_CTR.fetch_add(1, Ordering::Relaxed) + 1;
        let v = crate::rng::mix64(key ^ crate::rng::mix64(n)).to_le_bytes();
        chunk.copy_from_slice(&v[..chunk.len()]);
    }
    if four {
        /* erbium draws its 16-bit upstream query id from a 4-byte request;
         * low-entropy ids are a legal outcome of a true RNG and make the
         * birthday case frequent. */
        let bits = QID_BITS.load(Ordering::Relaxed);
        if bits < 16 {
            let v = u32::from_le_bytes([buf[0], buf[1], buf[2], buf[3]]);
            let mask = (1u32 << bits) - 1;
            let v = if QID_HIGH.load(Ordering::Relaxed) { (v & mask) | !mask } else { v & mask };
            buf.copy_from_slice(&v.to_le_bytes());
        }
    }
}

#[unsafe(no_mangle)]
pub unsafe extern "C" fn getrandom(buf: *mut libc::c_void, len: libc::size_t, flags: libc::c_uint) -> libc::ssize_t {
    if !RNG_ARMED.load(Ordering::Relaxed) {
        return unsafe { libc::syscall(libc::SYS_getrandom, buf, len, flags) as libc::ssize_t };
    }
    let s = unsafe { std::slice::from_raw_parts_mut(buf as *mut u8, len) };
    fill_random(s);
    len as libc::ssize_t
}

#[unsafe(no_mangle)]
unsafe extern "Rust" fn __getrandom_v03_custom(dest: *mut u8, len: usize) -> Result<(), getrandom::Error> {
    if !RNG_ARMED.load(Ordering::Relaxed) {
        let r = unsafe { libc::syscall(libc::SYS_getrandom, dest, len, 0) };
        return if r == len as libc::c_long { Ok(()) } else { Err(getrandom::Error::UNEXPECTED) };
    }
    let s = unsafe { std::slice::from_raw_parts_mut(dest, len) };
    fill_random(s);
    Ok(())
}
