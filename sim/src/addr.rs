//! Raw `sockaddr_*` byte encodings, written out by hand so that the simulated
//! kernel interprets exactly the bytes erbium (through nix) hands to it.

use std::net::{IpAddr, Ipv4Addr, Ipv6Addr, SocketAddr, SocketAddrV4, SocketAddrV6};

#[derive(Clone, Debug, PartialEq, Eq, Hash, PartialOrd, Ord)]
pub enum UnixName {
    Path(Vec<u8>),
    Abstract(Vec<u8>),
    Unnamed,
}

#[derive(Clone, Debug, PartialEq, Eq)]
pub enum Addr {
    Inet(SocketAddr),
    Unix(UnixName),
    Ll { ifindex: i32, proto: u16, mac: [u8; 6] },
}

pub fn encode_v4(a: &SocketAddrV4) -> Vec<u8> {
    let mut v = vec![0u8; 16];
    v[0..2].copy_from_slice(&(libc::AF_INET as u16).to_ne_bytes());
    v[2..4].copy_from_slice(&a.port().to_be_bytes());
    v[4..8].copy_from_slice(&a.ip().octets());
    v
}

pub fn encode_v6(a: &SocketAddrV6) -> Vec<u8> {
    let mut v = vec![0u8; 28];
    v[0..2].copy_from_slice(&(libc::AF_INET6 as u16).to_ne_bytes());
    v[2..4].copy_from_slice(&a.port().to_be_bytes());
    v[4..8].copy_from_slice(&a.flowinfo().to_be_bytes());
    v[8..24].copy_from_slice(&a.ip().octets());
    v[24..28].copy_from_slice(&a.scope_id().to_ne_bytes());
    v
}

pub fn encode(a: &Addr) -> Vec<u8> {
    match a {
        Addr::Inet(SocketAddr::V4(a)) => encode_v4(a),
        Addr::Inet(SocketAddr::V6(a)) => encode_v6(a),
        Addr::Unix(n) => {
            let mut v = (libc::AF_UNIX as u16).to_ne_bytes().to_vec();
            match n {
                UnixName::Path(p) => {
                    v.extend_from_slice(p);
                    v.push(0);
                }
                UnixName::Abstract(p) => {
                    v.push(0);
                    v.extend_from_slice(p);
                }
                UnixName::Unnamed => (),
            }
            v
        }
        Addr::Ll { ifindex, proto, mac } => {
            let mut v = vec![0u8; 20];
            v[0..2].copy_from_slice(&(libc::AF_PACKET as u16).to_ne_bytes());
            v[2..4].copy_from_slice(&proto.to_be_bytes());
            v[4..8].copy_from_slice(&ifindex.to_ne_bytes());
            v[8..10].copy_from_slice(&1u16.to_ne_bytes()); /* ARPHRD_ETHER */
            v[10] = 0; /* PACKET_HOST */
            v[11] = 6;
            v[12..18].copy_from_slice(mac);
            v
        }
    }
}

pub fn decode(b: &[u8]) -> Option<Addr> {
    if b.len() < 2 {
        return None;
    }
    let fam = u16::from_ne_bytes([b[0], b[1]]) as i32;
    match fam {
        libc::AF_INET if b.len() >= 8 => Some(Addr::Inet(SocketAddr::V4(SocketAddrV4::new(
            Ipv4Addr::new(b[4], b[5], b[6], b[7]),
            u16::from_be_bytes([b[2], b[3]]),
        )))),
        libc::AF_INET6 if b.len() >= 28 => {
            let mut o = [0u8; 16];
            o.copy_from_slice(&b[8..24]);
            Some(Addr::Inet(SocketAddr::V6(SocketAddrV6::new(
                Ipv6Addr::from(o),
                u16::from_be_bytes([b[2], b[3]]),
                u32::from_be_bytes([b[4], b[5], b[6], b[7]]),
                u32::from_ne_bytes([b[24], b[25], b[26], b[27]]),
            ))))
        }
        libc::AF_UNIX => {
            let p = &b[2..];
            if p.is_empty() {
                Some(Addr::Unix(UnixName::Unnamed))
            } else if p[0] == 0 {
                Some(Addr::Unix(UnixName::Abstract(p[1..].to_vec())))
            } else {
                let end = p.iter().position(|c| *c == 0).unwrap_or(p.len());
                Some(Addr::Unix(UnixName::Path(p[..end].to_vec())))
            }
        }
        libc::AF_PACKET if b.len() >= 12 => {
            let mut mac = [0u8; 6];
            if b.len() >= 18 {
                mac.copy_from_slice(&b[12..18]);
            }
            Some(Addr::Ll {
                ifindex: i32::from_ne_bytes([b[4], b[5], b[6], b[7]]),
                proto: u16::from_be_bytes([b[2], b[3]]),
                mac,
            })
        }
        _ => None,
    }
}

pub fn map_v4(ip: Ipv4Addr) -> Ipv6Addr {
    ip.to_ipv6_mapped()
}

pub fn unmap(ip: IpAddr) -> IpAddr {
    match ip {
        IpAddr::V6(v6) => match v6.to_ipv4_mapped() {
            Some(v4) => IpAddr::V4(v4),
            None => ip,
        },
        _ => ip,
    }
}

/// `in_pktinfo { ipi_ifindex: i32, ipi_spec_dst: in_addr, ipi_addr: in_addr }`
pub fn encode_pktinfo4(ifindex: i32, spec_dst: Ipv4Addr, addr: Ipv4Addr) -> Vec<u8> {
    let mut v = vec![0u8; 12];
    v[0..4].copy_from_slice(&ifindex.to_ne_bytes());
    v[4..8].copy_from_slice(&spec_dst.octets());
    v[8..12].copy_from_slice(&addr.octets());
    v
}

pub fn decode_pktinfo4(b: &[u8]) -> Option<(i32, Ipv4Addr, Ipv4Addr)> {
    if b.len() < 12 {
        return None;
    }
    Some((
        i32::from_ne_bytes([b[0], b[1], b[2], b[3]]),
        Ipv4Addr::new(b[4], b[5], b[6], b[7]),
        Ipv4Addr::new(b[8], b[9], b[10], b[11]),
    ))
}

/// `in6_pktinfo { ipi6_addr: in6_addr, ipi6_ifindex: u32 }`
pub fn encode_pktinfo6(addr: Ipv6Addr, ifindex: u32) -> Vec<u8> {
    let mut v = vec![0u8; 20];
    v[0..16].copy_from_slice(&addr.octets());
    v[16..20].copy_from_slice(&ifindex.to_ne_bytes());
    v
}

pub fn decode_pktinfo6(b: &[u8]) -> Option<(Ipv6Addr, u32)> {
    if b.len() < 20 {
        return None;
    }
    let mut o = [0u8; 16];
    o.copy_from_slice(&b[0..16]);
    Some((
        Ipv6Addr::from(o),
        u32::from_ne_bytes([b[16], b[17], b[18], b[19]]),
    ))
}
