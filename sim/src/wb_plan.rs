//! World B (the DNS host): plan data and seeded plan generation.

use crate::codec_dns::*;
use crate::rng::Rng;
use crate::wa_plan::AclM;
use serde::{Deserialize, Serialize};
use std::net::{IpAddr, Ipv4Addr, Ipv6Addr};

#[derive(Clone, Debug, Serialize, Deserialize, PartialEq)]
pub enum RouteKind {
    Forward(usize),
    Nx,
    /// type forward with no dns-servers (the documented default is the empty list); what a
    /// query under such a route gets is not documented and not judged
    ForwardNowhere,
}

#[derive(Clone, Debug, Serialize, Deserialize)]
pub struct RouteM {
    pub suffixes: Vec<String>,
    pub kind: RouteKind,
}

#[derive(Clone, Debug, Serialize, Deserialize, PartialEq)]
pub enum UpBehaviour {
    /// answer every transmission after this many milliseconds
    Normal { delay_ms: u64 },
    /// never answer
    Silent,
    /// ignore the first n transmissions (as if lost), answer the next ones
    AnswerFrom { nth: u32, delay_ms: u64 },
    /// answer twice
    Dup { gap_ms: u64 },
    /// the first transmission seen for the key is answered with garbage after `garbage_ms`,
    /// every other one properly after 10 ms
    GarbageFirst { garbage_ms: u64 },
    /// a drop pattern over the transmissions of one upstream query: transmission i (from 1)
    /// is answered iff bit i-1 of `mask` is set, after `delays_ms[i-1]` milliseconds
    Pattern { mask: u8, delays_ms: Vec<u64> },
    /// first a reply with another id (spoof), then nothing on UDP; TCP answers normally
    WrongId,
    /// UDP answers are truncated (TC, no records); TCP gives the full answer
    Tc,
    /// UDP answers are truncated the way most servers do it: TC set, the first `keep` answer
    /// records still there; TCP gives the full answer (if the TCP side lets it)
    TcPartial { keep: u8 },
    /// reply with octets that are not a DNS message
    Garbage,
    /// ICMP port unreachable for every UDP transmission
    Unreachable,
    /// a valid reply with boundary values written into its length, count and pointer
    /// fields (right id, right source), over UDP and over TCP
    Hostile { seed: u64 },
}

#[derive(Clone, Debug, Serialize, Deserialize, PartialEq)]
pub enum UpTcp {
    Normal,
    /// reply in 1-octet segments
    OneByte,
    /// accept, read the query, then reset the connection
    Reset,
    /// accept, read the query, close without answering
    Close,
    /// accept, never answer
    Stall,
    /// answer with an id nobody asked for first, then the real answer
    UnknownIdFirst,
    /// send the answer twice
    Twice,
    /// reply after this delay
    Slow { delay_ms: u64 },
    /// hold the reply until the next query arrives on the connection (up to 40 ms), then write
    /// this reply and a strict prefix of the next one in one go and close (or reset): the
    /// connection dies inside the second of two pipelined replies
    GlueNext { keep_permille: u16, reset: bool },
}

#[derive(Clone, Debug, Serialize, Deserialize)]
pub struct AnsSpec {
    pub seed: u64,
    pub rcode: u16,
    pub counts: [u16; 3],
    /// 0 mixed, 1 all equal, 2 includes zero, 3 includes 2^32-1, 4 small (1..5)
    pub ttl_mode: u8,
    pub fixed_ttl: u32,
    /// extra octets of opaque rdata per record
    pub pad: usize,
    pub compress: bool,
    /// names share suffixes with the question and each other
    pub share_names: bool,
    pub with_opt: bool,
    /// resize one opaque record so that the encoded upstream reply has exactly this many octets
    #[serde(default)]
    pub steer_total: Option<usize>,
}

#[derive(Clone, Debug, Serialize, Deserialize, PartialEq)]
pub enum CookieSpec {
    None,
    ClientOnly,
    /// present the server cookie learnt from an earlier query (index into `queries`)
    FromQuery(usize),
    /// a server cookie nobody issued
    Forged,
    /// a server cookie computed the way erbium computes them, but under a key an outsider can
    /// guess (all zero octets: the value of an unset key); `form` selects how the two
    /// addresses are fed to the MAC (IPv4 octets or IPv4-mapped IPv6 octets, each side)
    ForgedUnderGuessedKey { key: Vec<u8>, form: u8 },
    /// client cookie of the wrong length (hostile)
    Malformed(usize),
}

#[derive(Clone, Debug, Serialize, Deserialize)]
pub struct EdnsSpec {
    pub size: u16,
    pub do_bit: bool,
    pub cookie: CookieSpec,
    pub client_cookie: [u8; 8],
    pub nsid: bool,
    pub extra: Vec<(u16, Vec<u8>)>,
}

#[derive(Clone, Debug, Serialize, Deserialize)]
pub struct QuerySpec {
    pub at_ms: u64,
    pub src_ip: IpAddr,
    pub src_port: u16,
    pub tcp: bool,
    /// listener address the client sends to
    pub dst: std::net::SocketAddr,
    pub qname: Name,
    pub qtype: u16,
    pub qclass: u16,
    pub rd: bool,
    pub cd: bool,
    pub id: u16,
    pub edns: Option<EdnsSpec>,
    /// sizes of the first segments of a TCP request (the rest goes in one)
    pub tcp_split: Vec<usize>,
    pub ans: AnsSpec,
    pub up: UpBehaviour,
    pub up_tcp: UpTcp,
    /// deliver the datagram twice (network duplication on the client side)
    pub dup_in: bool,
    /// hostile octets instead of a well-formed query
    pub raw: Option<Vec<u8>>,
    /// part of a flood: many queries from this source, not individually judged
    pub flood: bool,
    /// carries a server cookie that is valid for this client, addresses and key period
    #[serde(default)]
    pub exempt: bool,
    /// a refused query from a source that has been quiet for longer than the refill
    /// period: it must receive its REFUSED response
    #[serde(default)]
    pub quiet_probe: bool,
    /// a well-formed query sent right after a hostile input: it must be answered
    #[serde(default)]
    pub liveness_probe: bool,
    /// sent long after the last fault: must get the real answer (bounded recovery)
    #[serde(default)]
    pub after_faults: bool,
    /// cache shape: do not send at `at_ms` but this many milliseconds after the
    /// instant at which the newest upstream reply for the same key reaches its
    /// smallest TTL (negative: before)
    #[serde(default)]
    pub ttl_boundary: Option<i64>,
    /// tcpidle shape: send this many milliseconds after (negative: before) the instant at
    /// which the newest upstream TCP reply is 120 seconds old
    #[serde(default)]
    pub tcp_idle_off: Option<i64>,
    /// pipeline shape: queries with the same group number share one client TCP connection.
    /// mode 0: all frames written back to back when the first is due; mode 1: each next
    /// query is written 5 ms after the response to the previous one arrived
    #[serde(default)]
    pub conn: Option<(u32, u8)>,
    /// hostile TCP framing: the two-octet length prefix to write instead of the true length
    #[serde(default)]
    pub tcp_prefix: Option<u16>,
}

#[derive(Clone, Debug, Serialize, Deserialize)]
pub struct PlanB {
    pub seed: u64,
    pub shape: String,
    pub lan4: (Ipv4Addr, u8),
    pub lan6: (Ipv6Addr, u8),
    pub up4: (Ipv4Addr, u8),
    pub up6: (Ipv6Addr, u8),
    pub listeners: Vec<String>,
    pub upstreams: Vec<IpAddr>,
    pub upstream_tcp: Vec<String>, /* accept | refuse | blackhole */
    pub routes: Vec<RouteM>,
    pub acls: Option<Vec<AclM>>,
    /// top-level `addresses`
    pub addresses: Vec<String>,
    pub queries: Vec<QuerySpec>,
    pub wall_base: i64,
    /// wall-clock jumps (at_ms, seconds)
    pub clock_jumps: Vec<(u64, i64)>,
    pub yield_p: f64,
    pub spurious_p: f64,
    pub eintr_p: f64,
    pub out_loss_p: f64,
    pub out_dup_p: f64,
    pub out_delay_p: f64,
    pub qid_bits: u32,
    /// low-entropy query ids are drawn next to 0xffff instead of next to 0
    #[serde(default)]
    pub qid_high: bool,
    /// size of erbium's host's ephemeral port range (0: default)
    #[serde(default)]
    pub eph_ports: u16,
    /// probability that a UDP sendmsg of erbium fails with ENOBUFS/EPERM/ENETUNREACH
    #[serde(default)]
    pub send_err_p: f64,
    pub sndbuf: usize,
    pub max_seg: usize,
    pub lat_max_us: u64,
    /// a second IPv4 address on the LAN interface (for "another local address")
    #[serde(default)]
    pub lan4_alias: Option<Ipv4Addr>,
    /// cookie shape: which case this run exercises (for the evidence) and how a learnt
    /// server cookie is damaged before it is presented (keep this many octets, append these)
    #[serde(default)]
    pub cookie_case: String,
    #[serde(default)]
    pub cookie_mangle: Option<(usize, Vec<u8>)>,
}

impl PlanB {
    pub fn yaml(&self) -> String {
        let mut s = String::from("---\n");
        s.push_str(&format!("addresses: [{}]\n", self.addresses.iter().map(|a| format!("\"{}\"", a)).collect::<Vec<_>>().join(", ")));
        if self.listeners.len() == 1 && self.listeners[0] == "bind-interfaces" {
            /* no dns-listeners: one socket per interface address inside `addresses` */
            s.push_str("default-listen-style: bind-addresses-interfaces\n");
        } else if !(self.listeners.len() == 1 && self.listeners[0] == "default") {
            s.push_str(&format!("dns-listeners: [{}]\n", self.listeners.iter().map(|a| format!("\"{}\"", a)).collect::<Vec<_>>().join(", ")));
        }
        s.push_str("api-listeners: []\n");
        if let Some(acls) = &self.acls {
            s.push_str(if acls.is_empty() { "acls: []\n" } else { "acls:\n" });
            for a in acls {
                let mut parts = vec![];
                if let Some(sn) = &a.subnets {
                    parts.push(format!("match-subnets: [{}]", sn.iter().map(|x| format!("\"{}\"", x)).collect::<Vec<_>>().join(", ")));
                }
                if let Some(u) = a.unix {
                    parts.push(format!("match-unix: {}", u));
                }
                parts.push(format!("apply-access: [{}]", a.access.iter().map(|x| format!("\"{}\"", x)).collect::<Vec<_>>().join(", ")));
                s.push_str(&format!("  - {{ {} }}\n", parts.join(", ")));
            }
        }
        s.push_str("dns-routes:\n");
        for r in &self.routes {
            s.push_str(&format!("  - domain-suffixes: [{}]\n", r.suffixes.iter().map(|x| format!("\"{}\"", x)).collect::<Vec<_>>().join(", ")));
            match &r.kind {
                RouteKind::Nx => s.push_str("    type: forge-nxdomain\n"),
                RouteKind::Forward(u) => {
                    s.push_str("    type: forward\n");
                    s.push_str(&format!("    dns-servers: [\"{}\"]\n", self.upstreams[*u]));
                }
                RouteKind::ForwardNowhere => s.push_str("    type: forward\n"),
            }
        }
        s
    }

    /// Reference routing: longest suffix (whole labels, ASCII case-insensitive).
    pub fn route_for(&self, qname: &Name) -> Option<&RouteKind> {
        let mut best: Option<(usize, &RouteKind)> = None;
        for r in &self.routes {
            for s in &r.suffixes {
                let sn = Name::parse(s);
                if qname.ends_with_ci(&sn) && best.map(|b| sn.0.len() > b.0).unwrap_or(true) {
                    best = Some((sn.0.len(), &r.kind));
                }
            }
        }
        best.map(|b| b.1)
    }

    pub fn acl_rules(&self) -> Vec<AclM> {
        match &self.acls {
            Some(a) => a.clone(),
            None => vec![
                AclM { subnets: Some(self.addresses.clone()), unix: None, access: vec!["dns-recursion".into(), "http-ro".into()] },
                AclM { subnets: Some(vec!["127.0.0.0/8".into(), "::1/128".into()]), unix: None, access: vec!["dns-recursion".into(), "http-ro".into()] },
                AclM { subnets: None, unix: Some(true), access: vec!["http-ro".into()] },
            ],
        }
    }
}

pub fn rand_case(r: &mut Rng, s: &str, p: f64) -> String {
    s.chars().map(|c| if r.chance(p) { c.to_ascii_uppercase() } else { c }).collect()
}

/// Build the records of one upstream reply.  Every record carries `serial`
/// so that each client-visible record is attributable to exactly one reply.
pub fn build_answer(spec: &AnsSpec, q: &(Name, u16, u16), serial: u32, id: u16) -> Msg {
    let mut r = Rng::new(spec.seed, "answer");
    let ser_label = format!("s{}", serial).into_bytes();
    let ser_bytes = serial.to_be_bytes();
    let qn = &q.0;
    let name_pool = |r: &mut Rng| -> Name {
        if spec.share_names {
            /* names sharing suffixes with the question at every depth */
            let keep = r.below(qn.0.len() as u64 + 1) as usize;
            let mut l: Vec<Vec<u8>> = vec![];
            for _ in 0..r.range(0, 2) {
                l.push(format!("n{}", r.below(6)).into_bytes());
            }
            l.extend_from_slice(&qn.0[qn.0.len() - keep..]);
            Name(l)
        } else {
            Name(vec![format!("h{}", r.below(1000)).into_bytes(), b"example".to_vec(), b"net".to_vec()])
        }
    };
    /* label spelling: a fifth of the replies spell the labels of their names in mixed case,
     * a tenth use octets that are not letters, digits or hyphens; the relayed names must
     * come back octet for octet (RFC 4343: case is preserved) */
    let spelling = Rng::new(spec.seed, "label-spelling").below(10);
    let name_pool = |r: &mut Rng| -> Name {
        let Name(labels) = name_pool(r);
        Name(
            labels
                .into_iter()
                .map(|l| match spelling {
                    0 | 1 => l.iter().map(|b| if r.chance(0.5) { b.to_ascii_uppercase() } else { b.to_ascii_lowercase() }).collect(),
                    2 => {
                        let mut l = l;
                        if r.chance(0.5) {
                            l.push(*r.pick(&[0u8, b'.', b' ', b'@', b'[', b'{', b'\\', 0x7f, 0x80, 0xff, b'_', b'*']));
                        }
                        l
                    }
                    _ => l,
                })
                .collect(),
        )
    };
    /* label and name lengths at their limits: a twentieth of the replies stretch the labels they
     * add in front of the question's suffix to 62-63 octets, as far as the name (with the
     * serial label still to come) stays within 255 octets */
    let stretch = Rng::new(spec.seed, "label-length").chance(0.05);
    let name_pool = |r: &mut Rng| -> Name {
        let Name(mut labels) = name_pool(r);
        if stretch {
            for i in 0..labels.len() {
                if labels[i].first() == Some(&b'n') && labels[i].len() <= 3 {
                    let total: usize = labels.iter().map(|l| l.len() + 1).sum::<usize>() + 1 + 12;
                    let room = 255usize.saturating_sub(total);
                    let want = if r.chance(0.5) { 63 } else { 62 };
                    let grow = (want - labels[i].len()).min(room);
                    let fill = b'a' + (i as u8 % 26);
                    labels[i].extend(std::iter::repeat(fill).take(grow));
                }
            }
        }
        Name(labels)
    };
    let with_serial = |n: Name| -> Name {
        let mut l = vec![ser_label.clone()];
        l.extend(n.0);
        Name(l)
    };
    let ttl = |r: &mut Rng, i: usize| -> u32 {
        match spec.ttl_mode {
            1 => spec.fixed_ttl,
            2 => *r.pick(&[0u32, 0, 1, 30, 300]),
            3 => *r.pick(&[u32::MAX, u32::MAX, 0x7fff_ffff, 0x8000_0000, 86400]),
            4 => r.range(1, 5) as u32,
            _ => {
                if i == 0 {
                    spec.fixed_ttl
                } else {
                    spec.fixed_ttl.saturating_add(r.range(0, 500) as u32)
                }
            }
        }
    };
    let mk = |r: &mut Rng, section: usize, idx: usize| -> Rr {
        let owner = if section == 0 && r.chance(0.7) { qn.clone() } else { name_pool(r) };
        let t = *r.pick(&[T_A, T_A, T_AAAA, T_NS, T_CNAME, T_SOA, T_PTR, T_MX, T_TXT, T_RP, T_AFSDB, T_RT, T_NAPTR, 99, 257, T_A]);
        let mut pad = r.bytes(spec.pad);
        let rdata = match t {
            T_A => {
                if spec.pad == 0 {
                    RData::Raw(ser_bytes.to_vec())
                } else {
                    /* an opaque type instead, so the rdata may have any size */
                    let mut d = ser_bytes.to_vec();
                    d.append(&mut pad);
                    return Rr { name: owner, rtype: 65280, class: 1, ttl: ttl(r, idx), rdata: RData::Raw(d) };
                }
            }
            T_AAAA => {
                let mut d = vec![0x20, 0x01, 0x0d, 0xb8, 0, 0, 0, 0, 0, 0, 0, 0];
                d.extend_from_slice(&ser_bytes);
                RData::Raw(d)
            }
            T_NS | T_CNAME | T_PTR => RData::Name(with_serial(name_pool(r))),
            T_MX | T_AFSDB | T_RT => RData::PrefName(r.below(65536) as u16, with_serial(name_pool(r))),
            T_SOA => RData::Soa { mname: with_serial(name_pool(r)), rname: name_pool(r), serial, refresh: r.next_u64() as u32, retry: 3, expire: u32::MAX, minimum: 0 },
            T_RP => RData::Rp(with_serial(name_pool(r)), name_pool(r)),
            T_NAPTR => {
                let n = r.below(40) as usize;
                RData::Naptr { order: 1, pref: 2, flags: b"u".to_vec(), services: ser_bytes.to_vec(), regexp: r.bytes(n), replacement: name_pool(r) }
            }
            T_TXT => {
                let mut d = vec![4u8];
                d.extend_from_slice(&ser_bytes);
                d.push(pad.len().min(255) as u8);
                pad.truncate(255);
                d.append(&mut pad);
                RData::Raw(d)
            }
            _ => {
                let mut d = ser_bytes.to_vec();
                d.append(&mut pad);
                RData::Raw(d)
            }
        };
        let class = if r.chance(0.03) { 3 } else { 1 };
        Rr { name: owner, rtype: t, class, ttl: ttl(r, idx), rdata }
    };
    let mut idx = 0usize;
    let mut m = Msg { id, flags: F_QR | F_RD | F_RA | (spec.rcode & 0xf), question: vec![q.clone()], ..Default::default() };
    if r.chance(0.2) {
        m.flags |= F_AA;
    }
    for s in 0..3 {
        for _ in 0..spec.counts[s] {
            let rr = mk(&mut r, s, idx);
            idx += 1;
            match s {
                0 => m.answer.push(rr),
                1 => m.authority.push(rr),
                _ => m.additional.push(rr),
            }
        }
    }
    {
        /* a ladder of names, each one label longer than the one before (zone cuts from the top
         * down, or a chain of reverse-zone delegations): a compressor that always points at the
         * longest suffix written so far emits one pointer hop per rung, so expanding the last
         * name takes as many hops as there are rungs */
        let mut k = Rng::new(spec.seed, "name-ladder");
        if spec.share_names && spec.pad == 0 && spec.steer_total.is_none() && k.chance(0.06) {
            let mut name: Vec<Vec<u8>> = qn.0[qn.0.len().saturating_sub(1)..].to_vec();
            /* the deepest name, with the serial label in front, stays within 255 octets */
            let most = (255 - 1 - name.iter().map(|l| l.len() + 1).sum::<usize>() - 12) / 2;
            let rungs = (*k.pick(&[3usize, 8, 9, 10, 11, 12, 13, 14, 20, 40, 100, 127])).min(most);
            for i in 0..rungs {
                name.insert(0, vec![b'a' + (i % 26) as u8]);
                let owner = Name(name.clone());
                let rr = if k.chance(0.5) {
                    Rr { name: owner, rtype: T_NS, class: 1, ttl: spec.fixed_ttl.max(1), rdata: RData::Name(with_serial(Name(name.clone()))) }
                } else {
                    let mut d = vec![0x20, 0x01, 0x0d, 0xb8, 0, 0, 0, 0, 0, 0, 0, 0];
                    d.extend_from_slice(&ser_bytes);
                    Rr { name: owner, rtype: T_AAAA, class: 1, ttl: spec.fixed_ttl.max(1), rdata: RData::Raw(d) }
                };
                m.authority.push(rr);
            }
        }
    }
    if spec.with_opt || spec.rcode > 15 {
        /* RFC 6891 6.1.1: OPT may sit anywhere in the additional section */
        let opt = Rr { name: Name(vec![]), rtype: T_OPT, class: 1232, ttl: ((spec.rcode as u32) >> 4) << 24, rdata: RData::Opt(vec![]) };
        let mut k = Rng::new(spec.seed, "opt-position");
        let at = match k.below(4) {
            0 => 0,
            1 => k.below(m.additional.len() as u64 + 1) as usize,
            _ => m.additional.len(),
        };
        m.additional.insert(at, opt);
    }
    if let Some(target) = spec.steer_total {
        /* make the encoded reply exactly `target` octets long by resizing one opaque record */
        let len = encode(&m, spec.compress).len();
        let i = match m.answer.iter().position(|rr| rr.rtype == 65280 && matches!(rr.rdata, RData::Raw(_))) {
            Some(i) => i,
            None => {
                let mut d = ser_bytes.to_vec();
                d.extend_from_slice(&[0u8; 4]);
                m.answer.push(Rr { name: qn.clone(), rtype: 65280, class: 1, ttl: spec.fixed_ttl, rdata: RData::Raw(d) });
                m.answer.len() - 1
            }
        };
        let len = if len == encode(&m, spec.compress).len() { len } else { encode(&m, spec.compress).len() };
        if let RData::Raw(d) = &mut m.answer[i].rdata {
            let want = d.len() as i64 + target as i64 - len as i64;
            if (4..=65535).contains(&want) {
                d.resize(want as usize, 0x5a);
            }
        }
    }
    m
}

pub struct GenB {
    pub shape: &'static str,
    pub thorough: bool,
}

fn label(r: &mut Rng) -> String {
    let n = r.range(1, 8);
    (0..n).map(|_| (b'a' + r.below(26) as u8) as char).collect()
}

pub fn generate(seed: u64, g: &GenB) -> PlanB {
    if g.shape == "flood" || g.shape == "cookie" {
        return generate_flood(seed, g.shape == "cookie");
    }
    if g.shape == "manyflood" {
        return generate_manyflood(seed);
    }
    let mut r = Rng::new(seed, "plan-b");
    let shape = g.shape;
    let lan4 = (Ipv4Addr::new(192, 168, r.range(1, 250) as u8, 1), 24u8);
    let lan6 = (Ipv6Addr::new(0x2001, 0xdb8, 0x10, r.range(1, 0xfff) as u16, 0, 0, 0, 1), 64u8);
    let up4 = (Ipv4Addr::new(203, 0, 113, 2), 30u8);
    let up6 = (Ipv6Addr::new(0x2001, 0xdb8, 0xffff, 0, 0, 0, 0, 2), 64u8);
    /* listener families: dual-stack default, IPv4 wildcard, one IPv4 address, one IPv6 address, several */
    let listeners: Vec<String> = match r.below(6) {
        0 | 1 => vec!["default".into()],
        2 => vec!["0.0.0.0:53".into()],
        3 => vec![format!("{}:53", lan4.0)],
        4 => vec![format!("[{}]:53", lan6.0)],
        _ => vec![format!("{}:53", lan4.0), format!("[{}]:53", lan6.0), "127.0.0.1:53".into()],
    };
    let nup = r.range(1, 4) as usize;
    let upstreams: Vec<IpAddr> = (0..nup)
        .map(|i| if r.chance(0.6) { IpAddr::V4(Ipv4Addr::new(198, 51, 100, 10 + i as u8)) } else { IpAddr::V6(Ipv6Addr::new(0x2001, 0xdb8, 0x53, 0, 0, 0, 0, 0x10 + i as u16)) })
        .collect();
    /* idreuse: many TCP-path queries in flight on the shared upstream connection with
     * 3-bit query ids, duplicated and stray replies */
    let idreuse = shape == "idreuse";
    let faulty = matches!(shape, "faulty") || idreuse;
    let upstream_tcp: Vec<String> = (0..nup).map(|_| if faulty { r.pick(&["accept", "accept", "accept", "refuse", "blackhole"]).to_string() } else { "accept".to_string() }).collect();

    /* routes: nested and sibling suffixes, mixed case, in seeded order */
    /* distinct labels: the manual does not say what two routes with the same suffix mean */
    let mut base: Vec<String> = vec![];
    while base.len() < 3 {
        let l = label(&mut r);
        if !base.contains(&l) && l != "sub" && l != "deep" {
            base.push(l);
        }
    }
    let mut suffix_pool: Vec<String> = vec![];
    for b in &base {
        suffix_pool.push(format!("{}.test", b));
        suffix_pool.push(format!("sub.{}.test", b));
        suffix_pool.push(format!("deep.sub.{}.test", b));
    }
    suffix_pool.push("test".into());
    suffix_pool.push("invalid".into());
    let mut routes: Vec<RouteM> = vec![];
    let nroutes = r.range(1, 6) as usize;
    let mut pool = suffix_pool.clone();
    r.shuffle(&mut pool);
    let case_p = if matches!(shape, "routes") { 0.3 } else { 0.0 };
    for i in 0..nroutes {
        let k = r.range(0, 4).min(pool.len() as u64) as usize;
        let mut suffixes: Vec<String> = pool.drain(..k).collect();
        suffixes = suffixes.iter().map(|s| rand_case(&mut r, s, case_p)).collect();
        let kind = if r.chance(0.25) { RouteKind::Nx } else { RouteKind::Forward(r.below(nup as u64) as usize) };
        routes.push(RouteM { suffixes, kind });
        if i == 0 && r.chance(0.7) {
            /* a default route */
            routes.push(RouteM { suffixes: vec!["".into()], kind: RouteKind::Forward(r.below(nup as u64) as usize) });
        }
    }
    r.shuffle(&mut routes);

    let addresses = vec![format!("{}/{}", Ipv4Addr::from(u32::from(lan4.0) & 0xffff_ff00), 24), format!("{}/64", Ipv6Addr::from(u128::from(lan6.0) & (!0u128 << 64)))];
    let mut pool4 = vec![lan4.0, Ipv4Addr::LOCALHOST, Ipv4Addr::new(203, 0, 113, 9), Ipv4Addr::new(10, 0, 0, 1)];
    pool4.push(Ipv4Addr::from(u32::from(lan4.0) + 50));
    let pool6 = vec![lan6.0, Ipv6Addr::LOCALHOST, "2001:db8:ffff::5".parse().unwrap()];
    let acls = if shape == "acl" && r.chance(0.9) { Some(crate::acl_model::gen_acls(&mut r, &pool4, &pool6)) } else { None };

    let mut p = PlanB {
        seed,
        shape: shape.to_string(),
        lan4,
        lan6,
        up4,
        up6,
        listeners,
        upstreams,
        upstream_tcp,
        routes,
        acls,
        addresses,
        queries: vec![],
        wall_base: {
            let mut k = Rng::new(seed, "plan-b-epoch");
            let w = 1_700_000_000 + r.below(200_000_000) as i64;
            if k.chance(0.04) { 2_147_483_648 - k.range(1, 100_000) as i64 } else { w }
        },
        clock_jumps: vec![],
        yield_p: if r.chance(0.4) { *r.pick(&[0.1, 0.3]) } else { 0.0 },
        spurious_p: if r.chance(0.3) { 0.05 } else { 0.0 },
        eintr_p: if r.chance(0.3) { 0.05 } else { 0.0 },
        out_loss_p: if faulty && r.chance(0.5) { *r.pick(&[0.05, 0.2]) } else { 0.0 },
        out_dup_p: if faulty && r.chance(0.3) { 0.1 } else { 0.0 },
        out_delay_p: if faulty && r.chance(0.3) { 0.2 } else { 0.0 },
        qid_bits: if idreuse { 3 } else if faulty && r.chance(0.3) { *r.pick(&[6u32, 3]) } else { 16 },
        eph_ports: 0,
        qid_high: false,
        send_err_p: 0.0,
        sndbuf: *r.pick(&[4096usize, 16384, 65536, 1 << 20, 1 << 20]),
        max_seg: *r.pick(&[0usize, 0, 0, 1460, 536]),
        lat_max_us: *r.pick(&[100u64, 2000, 20000]),
        lan4_alias: None,
        cookie_case: String::new(),
        cookie_mangle: None,
    };
    if r.chance(0.5) {
        /* a second IPv4 address on the LAN interface: the reply must come from the
         * address the query was sent to, not from the interface's first address */
        p.lan4_alias = Some(Ipv4Addr::from(u32::from(lan4.0) + 1));
    }

    let nq = match shape {
        "burst" => r.range(40, if g.thorough { 256 } else { 120 }),
        "sizes" | "large" => r.range(3, 12),
        _ => r.range(4, if g.thorough { 60 } else { 30 }),
    } as usize;
    let mut t = 1000u64;
    let mut used_ports = std::collections::BTreeSet::new();
    let names_by_route: Vec<String> = suffix_pool.clone();
    for qi in 0..nq {
        t += match shape {
            "idreuse" => *r.pick(&[0u64, 0, 1, 2, 5]),
            "burst" => {
                if r.chance(0.85) {
                    0
                } else {
                    r.range(1, 50)
                }
            }
            _ => *r.pick(&[0u64, 1, 5, 50, 400, 3000, 20_000]),
        };
        /* who asks, and which listener can it reach */
        let v6_listener = p.listeners.iter().any(|l| l.starts_with('[') || l == "default");
        let v4_listener = p.listeners.iter().any(|l| !l.starts_with('['));
        let use_v6 = v6_listener && (!v4_listener || r.chance(0.35));
        let inside = shape != "acl" || r.chance(0.5);
        let src_ip: IpAddr = if use_v6 {
            if inside {
                IpAddr::V6(Ipv6Addr::from(u128::from(lan6.0) + r.range(2, 500) as u128))
            } else {
                IpAddr::V6("2001:db8:ffff::77".parse().unwrap())
            }
        } else if inside {
            IpAddr::V4(Ipv4Addr::from(u32::from(lan4.0) + r.range(2, 200) as u32))
        } else {
            IpAddr::V4(Ipv4Addr::new(203, 0, 113, r.range(20, 200) as u8))
        };
        let dst: std::net::SocketAddr = {
            let cands: Vec<std::net::SocketAddr> = p
                .listeners
                .iter()
                .filter_map(|l| {
                    let v4dst = match p.lan4_alias {
                        Some(a) if r.chance(0.4) => a,
                        _ => lan4.0,
                    };
                    if l == "default" {
                        Some(if use_v6 { std::net::SocketAddr::new(IpAddr::V6(lan6.0), 53) } else { std::net::SocketAddr::new(IpAddr::V4(v4dst), 53) })
                    } else if l == "0.0.0.0:53" {
                        if use_v6 { None } else { Some(std::net::SocketAddr::new(IpAddr::V4(v4dst), 53)) }
                    } else {
                        let sa: std::net::SocketAddr = l.parse().ok()?;
                        if sa.is_ipv6() == use_v6 && !sa.ip().is_loopback() { Some(sa) } else { None }
                    }
                })
                .collect();
            if cands.is_empty() {
                continue;
            }
            *r.pick(&cands)
        };
        let mut port;
        loop {
            /* 3000..59999: follow-ups, probes and hostile inputs use their own ranges */
            port = r.range(3000, 59999) as u16;
            if used_ports.insert(port) {
                break;
            }
        }
        /* what is asked */
        let under = r.pick(&names_by_route).clone();
        let mut qname_s = match r.below(10) {
            0 => format!("{}.example", label(&mut r)), /* may have no route */
            1 => under.clone(),
            _ => format!("q{}-{}.{}", qi, label(&mut r), under),
        };
        if matches!(shape, "routes") {
            qname_s = rand_case(&mut r, &qname_s, 0.3);
        }
        let qtype = *r.pick(&[T_A, T_A, T_AAAA, T_MX, T_TXT, T_NS, T_SOA, T_PTR, 65, 99]);
        let big = matches!(shape, "sizes" | "large");
        let counts = if shape == "large" {
            [r.range(1, 1200) as u16, r.range(0, 400) as u16, r.range(0, 400) as u16]
        } else if big {
            [r.range(1, 40) as u16, r.range(0, 10) as u16, r.range(0, 10) as u16]
        } else {
            [r.range(0, 4) as u16, r.range(0, 3) as u16, r.range(0, 3) as u16]
        };
        let ans = AnsSpec {
            seed: r.next_u64(),
            rcode: *r.pick(&[0u16, 0, 0, 0, 3, 2, 5, 4, 1, 9, 16, 23, 0xfff]),
            counts,
            ttl_mode: if shape == "cache" { *r.pick(&[1u8, 1, 0, 2, 4, 4]) } else { *r.pick(&[0u8, 0, 1, 2, 3, 4]) },
            fixed_ttl: *r.pick(&[1u32, 2, 5, 30, 300, 86400]),
            pad: if big { *r.pick(&[0usize, 0, 10, 100, 400, 1000, 10_000, 60_000]) } else { *r.pick(&[0usize, 0, 0, 20]) },
            compress: r.chance(0.6),
            share_names: r.chance(0.6),
            with_opt: r.chance(0.5),
            steer_total: None,
        };
        let up = if faulty {
            match r.below(14) {
                0 => UpBehaviour::Silent,
                1 if r.chance(0.5) => UpBehaviour::AnswerFrom { nth: r.range(1, 4) as u32, delay_ms: r.range(1, 100) },
                1 => UpBehaviour::Pattern { mask: r.range(0, 31) as u8, delays_ms: (0..5).map(|_| *r.pick(&[1u64, 20, 200, 700, 900, 1500, 4000])).collect() },
                2 => UpBehaviour::Dup { gap_ms: r.range(0, 3000) },
                3 => UpBehaviour::WrongId,
                4 => UpBehaviour::Tc,
                5 => UpBehaviour::Garbage,
                6 => UpBehaviour::Unreachable,
                7 => UpBehaviour::Normal { delay_ms: r.range(260, 6000) },
                _ => UpBehaviour::Normal { delay_ms: r.range(1, 200) },
            }
        } else if big && r.chance(0.5) {
            UpBehaviour::Tc
        } else {
            UpBehaviour::Normal { delay_ms: r.range(1, 200) }
        };
        let up_tcp = if idreuse {
            r.pick(&[UpTcp::Twice, UpTcp::Twice, UpTcp::UnknownIdFirst, UpTcp::Normal, UpTcp::Slow { delay_ms: 300 }]).clone()
        } else if faulty {
            match r.below(12) {
                0 => UpTcp::OneByte,
                1 => UpTcp::Reset,
                2 => UpTcp::Close,
                3 => UpTcp::Stall,
                4 => UpTcp::UnknownIdFirst,
                5 => UpTcp::Twice,
                6 => UpTcp::Slow { delay_ms: r.range(260, 5000) },
                _ => UpTcp::Normal,
            }
        } else if r.chance(0.15) {
            UpTcp::OneByte
        } else {
            UpTcp::Normal
        };
        let tcp = if shape == "large" || idreuse { true } else { r.chance(if big { 0.5 } else { 0.3 }) };
        let mut ans = ans;
        if shape == "large" {
            /* half of the large replies are steered to the last octets below the 65535 limit:
             * erbium drops the upstream OPT, adds its own and compresses names its own way, so
             * its output lands on every size around the limit, 65536 included */
            let mut k = Rng::new(ans.seed, "steer-65535");
            if k.chance(0.5) {
                ans.counts = [k.range(1, 3) as u16, k.range(0, 2) as u16, k.range(0, 2) as u16];
                ans.pad = 0;
                ans.steer_total = Some(k.range(65_470, 65_535) as usize);
            }
        }
        let edns = if r.chance(0.7) {
            Some(EdnsSpec {
                size: *r.pick(&[0u16, 511, 512, 513, 1232, 1232, 4096, 4096, 65535]),
                do_bit: r.chance(0.3),
                cookie: if r.chance(0.3) { CookieSpec::ClientOnly } else { CookieSpec::None },
                client_cookie: {
                    let mut c = [0u8; 8];
                    r.fill(&mut c);
                    c
                },
                nsid: r.chance(0.1),
                extra: if r.chance(0.1) { vec![(8, vec![0, 1, 24, 0, 192, 0, 2])] } else { vec![] },
            })
        } else {
            None
        };
        let tcp_split = if tcp && r.chance(0.4) {
            match r.below(4) {
                0 => vec![1],
                1 => vec![1, 1],
                2 => vec![2],
                _ => vec![r.range(1, 20) as usize, r.range(1, 20) as usize],
            }
        } else {
            vec![]
        };
        p.queries.push(QuerySpec {
            at_ms: t,
            src_ip,
            src_port: port,
            tcp,
            dst,
            qname: Name::parse(&qname_s),
            qtype,
            qclass: if r.chance(0.04) { 3 } else { 1 },
            rd: !r.chance(0.08),
            cd: r.chance(0.1),
            id: r.below(65536) as u16,
            edns,
            tcp_split,
            ans,
            up,
            up_tcp,
            dup_in: faulty && !tcp && r.chance(0.05),
            raw: None,
            flood: false,
            exempt: false,
            quiet_probe: false,
            liveness_probe: false,
            after_faults: false,
            ttl_boundary: None,
            tcp_idle_off: None,
            conn: None,
            tcp_prefix: None,
        });
    }
    if faulty && !p.queries.is_empty() {
        /* recovery probes: long after the last fault, well-formed queries with a
         * well-behaved upstream exchange must get their real answers again */
        let t_last = p.queries.iter().map(|q| q.at_ms).max().unwrap();
        let template = p.queries[0].clone();
        for i in 0..4u64 {
            let mut q = template.clone();
            q.at_ms = t_last + 800_000 + i * 3_000;
            q.src_port = 900 + i as u16;
            q.id = r.below(65536) as u16;
            q.qname = Name::parse(&format!("recovered{}.{}", i, template.qname.to_text()));
            q.up = UpBehaviour::Normal { delay_ms: 20 };
            q.up_tcp = UpTcp::Normal;
            q.ans = AnsSpec { seed: r.next_u64(), rcode: 0, counts: [2, 1, 1], ttl_mode: 1, fixed_ttl: 60, pad: 0, compress: true, share_names: true, with_opt: true, steer_total: None };
            q.dup_in = false;
            q.tcp_split = vec![];
            q.rd = true;
            q.qclass = 1;
            q.edns = None;
            q.after_faults = true;
            /* over TCP only if the route's upstream accepts connections */
            let up_ok = match p.route_for(&q.qname) {
                Some(RouteKind::Forward(u)) => p.upstream_tcp[*u] == "accept",
                _ => false,
            };
            q.tcp = i % 2 == 1 && up_ok;
            p.queries.push(q);
        }
    }
    if faulty {
        add_tcp_glue(&mut p, seed);
    }
    if shape == "cache" {
        add_cache_followups(&mut p, &mut r);
        add_truncated_then_tcp(&mut p, seed);
    }
    if shape == "tcpidle" {
        add_tcp_idle_followups(&mut p, &mut r);
    }
    if shape == "routes" {
        add_confusable_labels(&mut p, seed);
    }
    if shape == "pipeline" {
        add_pipelines(&mut p, &mut r);
    }
    {
        /* `addresses` sometimes lists the LAN twice, the narrower prefix first, both with the
         * same network address; the default ACLs are built from this list and must still
         * grant the whole of the wider prefix */
        let mut k = Rng::new(seed, "plan-b-nested-addresses");
        if k.chance(0.2) && p.acls.is_none() {
            let net = Ipv4Addr::from(u32::from(p.lan4.0) & 0xffff_ff00);
            let narrow = *k.pick(&[25u8, 26, 30]);
            p.addresses.retain(|a| !a.starts_with(&format!("{}/", net)));
            p.addresses.insert(0, format!("{}/24", net));
            p.addresses.insert(0, format!("{}/{}", net, narrow));
        }
    }
    {
        let mut k = Rng::new(seed, "plan-b-listen-style");
        if p.listeners.len() == 1 && p.listeners[0] == "default" && k.chance(0.3) && p.addresses.len() == 2 {
            /* same destinations, reached through per-address sockets instead of the wildcard */
            p.listeners = vec!["bind-interfaces".into()];
        }
    }
    {
        /* knobs added later draw from their own stream, so that older seeds keep their plans */
        let mut k = Rng::new(seed, "plan-b-knobs2");
        if faulty && k.chance(0.35) {
            p.eph_ports = *k.pick(&[4u16, 16, 64, 512]);
        }
        if faulty && k.chance(0.3) {
            p.send_err_p = *k.pick(&[0.02, 0.1, 0.3]);
        }
        if shape == "burst" && k.chance(0.5) {
            /* many queries in flight on otherwise healthy upstreams, eight possible ids */
            p.qid_bits = 3;
        }
        p.qid_high = p.qid_bits < 16 && k.chance(0.5);
    }
    if shape == "hostile" {
        let mut k = Rng::new(seed, "plan-b-nowhere");
        if k.chance(0.15) {
            /* one forward route loses its servers */
            let cands: Vec<usize> = p.routes.iter().enumerate().filter(|(_, r)| matches!(r.kind, RouteKind::Forward(_)) && !r.suffixes.is_empty()).map(|(i, _)| i).collect();
            if !cands.is_empty() {
                let i = *k.pick(&cands);
                p.routes[i].kind = RouteKind::ForwardNowhere;
            }
        }
        add_hostile(&mut p, &mut r);
        let nowhere: Vec<bool> = p.queries.iter().map(|q| matches!(p.route_for(&q.qname), Some(RouteKind::ForwardNowhere))).collect();
        for (q, n) in p.queries.iter_mut().zip(nowhere) {
            if n && !q.liveness_probe {
                q.flood = true;
            }
        }
    }
    p.queries.sort_by_key(|q| q.at_ms);
    p
}

/// The routes shape: a suffix gets a label with a non-letter whose code differs by 0x20 from
/// another non-letter ('@' and '`', '[' and '{', ']' and '}', '^' and '~'): ASCII
/// case-insensitivity folds letters only, so the partner character must not match.
fn add_confusable_labels(p: &mut PlanB, seed: u64) {
    let mut k = Rng::new(seed, "plan-b-confusable");
    if !k.chance(0.4) || p.queries.is_empty() {
        return;
    }
    let cands: Vec<(usize, usize)> = p.routes.iter().enumerate().flat_map(|(ri, r)| r.suffixes.iter().enumerate().filter(|(_, s)| !s.is_empty()).map(move |(si, _)| (ri, si))).collect();
    if cands.is_empty() {
        return;
    }
    let (ri, si) = *k.pick(&cands);
    let (a, b) = *k.pick(&[('@', '`'), ('[', '{'), (']', '}'), ('^', '~')]);
    let (a, b) = if k.chance(0.5) { (a, b) } else { (b, a) };
    let old = p.routes[ri].suffixes[si].clone();
    let (first, rest) = match old.split_once('.') {
        Some((f, r)) => (f.to_string(), format!(".{}", r)),
        None => (old.clone(), String::new()),
    };
    let with = |c: char| format!("{}{}z{}", first, c, rest);
    p.routes[ri].suffixes[si] = with(a);
    let template = p.queries[k.below(p.queries.len() as u64) as usize].clone();
    let last = p.queries.iter().map(|q| q.at_ms).max().unwrap_or(1000);
    for v in 0..k.range(2, 5) {
        let mut q = template.clone();
        let under = match k.below(3) {
            0 => with(a),
            1 => with(b),
            _ => rand_case(&mut k, &with(b), 0.5),
        };
        q.qname = Name::parse(&if k.chance(0.3) { under.clone() } else { format!("c{}.{}", v, under) });
        q.at_ms = last + 40 * (v + 1);
        q.src_port = 61_000 + v as u16;
        q.id = k.below(65536) as u16;
        q.tcp = false;
        q.tcp_split = vec![];
        q.dup_in = false;
        q.conn = None;
        q.rd = true;
        q.ans.seed = k.next_u64();
        q.up = UpBehaviour::Normal { delay_ms: 10 };
        q.up_tcp = UpTcp::Normal;
        p.queries.push(q);
    }
}

/// The pipeline shape: several queries of one client over one TCP connection (RFC 7766),
/// written back to back or one after the other.
fn add_pipelines(p: &mut PlanB, r: &mut Rng) {
    p.out_loss_p = 0.0;
    let n = p.queries.len();
    let mut i = 0;
    let mut gid = 0u32;
    while i < n {
        let len = (r.range(1, 4) as usize).min(n - i);
        if len >= 2 {
            gid += 1;
            let mode = r.below(2) as u8;
            let (ip, port, dst, at) = (p.queries[i].src_ip, p.queries[i].src_port, p.queries[i].dst, p.queries[i].at_ms);
            for (k, q) in p.queries[i..i + len].iter_mut().enumerate() {
                q.tcp = true;
                q.src_ip = ip;
                q.src_port = port;
                q.dst = dst;
                q.at_ms = at;
                q.id = (q.id & 0xfff0) | k as u16; /* distinct within the connection */
                q.tcp_split = vec![];
                q.dup_in = false;
                q.conn = Some((gid, mode));
            }
        }
        i += len;
    }
}

/// The tcpidle shape: everything goes to the upstreams over TCP and is answered quickly;
/// then follow-up queries are aimed at the instants around which erbium's idle timers of
/// the upstream connection (120 s after its last send / last reply) run out, and are
/// answered slowly.
/// Two TCP clients ask at the same instant through a route whose upstream accepts connections,
/// so that erbium pipelines both on its one connection to that upstream; the upstream answers
/// the first in full and the second only in part, in a single write, and hangs up.  Long after
/// that (and after every other fault), further TCP-path queries through the same route must get
/// their answers: nothing of the dead connection's receive state may leak into the next one.
fn add_tcp_glue(p: &mut PlanB, seed: u64) {
    let mut k = Rng::new(seed, "plan-b-tcp-glue");
    if !k.chance(0.4) {
        return;
    }
    let cands: Vec<usize> = p
        .queries
        .iter()
        .enumerate()
        .filter(|(_, q)| {
            q.raw.is_none()
                && !q.after_faults
                && matches!(p.route_for(&q.qname), Some(RouteKind::Forward(u)) if p.upstream_tcp[*u] == "accept")
        })
        .map(|(i, _)| i)
        .collect();
    if cands.is_empty() {
        return;
    }
    let template = p.queries[*k.pick(&cands)].clone();
    let t_last = p.queries.iter().map(|q| q.at_ms).max().unwrap();
    let rounds = k.range(1, 2);
    let mut t = template.at_ms + k.range(0, 2000);
    let mut n = 0u16;
    let mut mk = |p: &mut PlanB, k: &mut Rng, at_ms: u64, label: &str, up_tcp: UpTcp, after: bool| {
        let mut q = template.clone();
        n += 1;
        q.at_ms = at_ms;
        q.src_port = 700 + n;
        q.id = k.below(65536) as u16;
        q.qname = Name::parse(&format!("{}{}.{}", label, n, template.qname.to_text()));
        q.qtype = 1;
        q.qclass = 1;
        q.rd = true;
        q.tcp = true;
        q.tcp_split = vec![];
        q.dup_in = false;
        q.edns = None;
        q.up = UpBehaviour::Normal { delay_ms: 5 };
        q.up_tcp = up_tcp;
        q.ans = AnsSpec { seed: k.next_u64(), rcode: 0, counts: [k.range(1, 6) as u16, 1, 1], ttl_mode: 1, fixed_ttl: 60, pad: 0, compress: true, share_names: true, with_opt: true, steer_total: None };
        q.after_faults = after;
        p.queries.push(q);
    };
    for _ in 0..rounds {
        let glue = UpTcp::GlueNext { keep_permille: *k.pick(&[1u16, 30, 500, 500, 900, 999]), reset: k.chance(0.4) };
        for _ in 0..k.range(2, 3) {
            mk(p, &mut k, t, "glue", glue.clone(), false);
        }
        /* a reconnect soon after, while other faults may still be going on */
        let again = t + k.range(500, 4000);
        mk(p, &mut k, again, "reglue", UpTcp::Normal, false);
        t += k.range(5_000, 200_000);
    }
    for i in 0..3u64 {
        mk(p, &mut k, t_last.max(t) + 1_000_000 + i * 2_000, "unglued", UpTcp::Normal, true);
    }
    /* the probabilistic faults of the run stop 600 s after the last query that is not a
     * recovery probe, and the rounds above may have moved that instant: every recovery probe
     * stays at least 800 s behind it */
    let last_faulty = p.queries.iter().filter(|q| !q.after_faults).map(|q| q.at_ms).max().unwrap_or(0);
    let first_probe = p.queries.iter().filter(|q| q.after_faults).map(|q| q.at_ms).min().unwrap_or(u64::MAX);
    if first_probe < last_faulty + 800_000 {
        let shift = last_faulty + 800_000 - first_probe;
        for q in p.queries.iter_mut().filter(|q| q.after_faults) {
            q.at_ms += shift;
        }
    }
}

fn add_tcp_idle_followups(p: &mut PlanB, r: &mut Rng) {
    for q in p.queries.iter_mut() {
        q.tcp = true;
        q.up = UpBehaviour::Normal { delay_ms: r.range(1, 20) };
        q.up_tcp = UpTcp::Normal;
        q.dup_in = false;
    }
    p.queries.truncate(r.range(1, 4) as usize);
    let base: Vec<QuerySpec> = p.queries.clone();
    let last = base.iter().map(|q| q.at_ms).max().unwrap_or(1000);
    let mut port = 2500u16;
    let mut extra = vec![];
    for k in 1..=r.range(1, 3) {
        let q = r.pick(&base).clone();
        let mut f = q.clone();
        f.at_ms = last + 100_000 + 120_000 * (k - 1);
        f.tcp_idle_off = Some(*r.pick(&[-900i64, -400, -250, -150, -100, -50, -30, -10, -1, 0, 1, 50]));
        port += 1;
        f.src_port = port;
        f.id = r.below(65536) as u16;
        f.qname = Name::parse(&format!("idle{}.{}", k, q.qname.to_text()));
        f.ans.seed = r.next_u64();
        f.up = UpBehaviour::Normal { delay_ms: *r.pick(&[5u64, 100, 300, 600, 1000]) };
        f.up_tcp = if r.chance(0.5) { UpTcp::OneByte } else { UpTcp::Normal };
        f.tcp = r.chance(0.8);
        if !f.tcp {
            /* a UDP query whose answer is truncated reaches the same connection */
            f.up = UpBehaviour::Tc;
        }
        extra.push(f);
    }
    p.queries.extend(extra);
}

/// The cache shape: repeat keys at instants around the TTL boundary, and
/// near-miss keys (other type, DO, CD, class, case).
/// A UDP query whose upstream answers TC with part of the records still in the datagram, while
/// the upstream's TCP side fails at that moment (reset, close); a little later, within the TTL
/// of those records, the same question arrives over TCP and the upstream's TCP side works.
/// Whatever erbium made of the fragment, the TCP client is owed the complete answer.
fn add_truncated_then_tcp(p: &mut PlanB, seed: u64) {
    let mut k = Rng::new(seed, "plan-b-truncated-then-tcp");
    if !k.chance(0.3) {
        return;
    }
    let cands: Vec<usize> = p
        .queries
        .iter()
        .enumerate()
        .filter(|(_, q)| q.raw.is_none() && matches!(p.route_for(&q.qname), Some(RouteKind::Forward(u)) if p.upstream_tcp[*u] == "accept"))
        .map(|(i, _)| i)
        .collect();
    if cands.is_empty() {
        return;
    }
    let template = p.queries[*k.pick(&cands)].clone();
    let mut q = template.clone();
    q.at_ms = template.at_ms + k.range(0, 3000);
    q.src_port = 650;
    q.id = k.below(65536) as u16;
    q.qname = Name::parse(&format!("cut.{}", template.qname.to_text()));
    q.qtype = 1;
    q.qclass = 1;
    q.rd = true;
    q.tcp = false;
    q.tcp_split = vec![];
    q.dup_in = false;
    q.ttl_boundary = None;
    q.ans = AnsSpec { seed: k.next_u64(), rcode: 0, counts: [k.range(3, 9) as u16, k.range(0, 2) as u16, k.range(0, 2) as u16], ttl_mode: 1, fixed_ttl: *k.pick(&[5u32, 30, 300]), pad: 0, compress: true, share_names: true, with_opt: true, steer_total: None };
    q.up = UpBehaviour::TcPartial { keep: k.range(1, 3) as u8 };
    q.up_tcp = k.pick(&[UpTcp::Reset, UpTcp::Close]).clone();
    let mut f = q.clone();
    f.at_ms = q.at_ms + *k.pick(&[300u64, 1000, 2500, 4000]);
    f.src_port = 651;
    f.id = k.below(65536) as u16;
    f.tcp = true;
    f.up = UpBehaviour::Normal { delay_ms: 10 };
    f.up_tcp = UpTcp::Normal;
    p.queries.push(q);
    p.queries.push(f);
}

fn add_cache_followups(p: &mut PlanB, r: &mut Rng) {
    let base: Vec<QuerySpec> = p.queries.iter().filter(|q| !q.tcp || true).cloned().collect();
    let mut extra = vec![];
    let mut port = 2000u16;
    for q in base.iter().take(8) {
        let ttl = q.ans.fixed_ttl as u64;
        for _ in 0..r.range(1, 4) {
            let off_ms: u64 = match r.below(8) {
                0 => 1000 * r.range(1, ttl.max(1)),
                1 => ttl * 1000 + 400 + 1,
                2 => (ttl * 1000 + 400).saturating_sub(1),
                3 => ttl * 1000 + 400,
                4 => ttl * 1000 + 1500,
                5 => r.range(1, 900),
                6 => ttl * 500,
                _ => ttl * 1000 + r.range(0, 5000),
            };
            let mut f = q.clone();
            f.at_ms = q.at_ms + off_ms;
            if r.chance(0.45) {
                /* aim at the expiry instant itself, as observed at run time */
                f.at_ms = q.at_ms + ttl * 1000;
                f.ttl_boundary = Some(*r.pick(&[0i64, 0, -1, 1, -1000, 1000, -999, 999, 1001, 2000]));
            }
            port += 1;
            f.src_port = port;
            f.id = r.below(65536) as u16;
            f.ans.seed = r.next_u64();
            f.tcp_split = vec![];
            match r.below(10) {
                0 => f.qtype = if q.qtype == T_A { T_AAAA } else { T_A },
                1 => {
                    if let Some(e) = &mut f.edns {
                        e.do_bit = !e.do_bit;
                    }
                }
                2 => f.cd = !f.cd,
                3 => f.qclass = 3,
                4 => f.qname = Name::parse(&rand_case(r, &q.qname.to_text(), 0.5)),
                _ => (),
            }
            extra.push(f);
        }
    }
    p.queries.extend(extra);
    /* twins: a second query with the same key while the first is still being resolved; the
     * first upstream transmission for the key is answered seconds later than the second */
    let n = p.queries.len();
    let mut twins = vec![];
    let mut k = Rng::new(p.seed, "plan-b-twins");
    for i in 0..n.min(8) {
        if !k.chance(0.3) || p.queries[i].tcp || p.queries[i].ttl_boundary.is_some() {
            continue;
        }
        let slow = *k.pick(&[1200u64, 2500, 4000]);
        /* the earlier exchange ends late with an answer, or fails while the later one's
         * answer sits in the cache */
        let failing = k.chance(0.4);
        let up = if failing { UpBehaviour::GarbageFirst { garbage_ms: *k.pick(&[150u64, 450, 650, 1350]) } } else { UpBehaviour::Pattern { mask: 0b00011, delays_ms: vec![slow, *k.pick(&[5u64, 20, 200]), 5, 5, 5] } };
        let ttl = if failing { *k.pick(&[2u32, 3, 5]) } else { *k.pick(&[0u32, 1, 1, 2, 3]) };
        let q = &mut p.queries[i];
        q.up = up.clone();
        q.ans.ttl_mode = 1;
        q.ans.fixed_ttl = ttl;
        q.dup_in = false;
        let mut t = q.clone();
        t.at_ms = q.at_ms + *k.pick(&[0u64, 1, 30, 300]);
        port += 1;
        t.src_port = port;
        t.id = k.below(65536) as u16;
        t.ttl_boundary = None;
        if failing {
            /* the same key again just after the instant the cached answer runs out */
            for off in [1i64, 350, 900] {
                if k.chance(0.6) {
                    let mut f = t.clone();
                    f.at_ms = t.at_ms + ttl as u64 * 1000;
                    f.ttl_boundary = Some(off);
                    port += 1;
                    f.src_port = port;
                    f.id = k.below(65536) as u16;
                    f.up = UpBehaviour::Normal { delay_ms: 10 };
                    twins.push(f);
                }
            }
        }
        twins.push(t);
    }
    p.queries.extend(twins);
}

/// C16: hundreds of refused sources flood at once (the situation the limiter exists
/// for); then a source that has never sent anything asks once, and after a silence longer
/// than the refill period one of the flooders asks once more.
pub fn generate_manyflood(seed: u64) -> PlanB {
    let mut r = Rng::new(seed, "plan-b-manyflood");
    let mut p = generate_flood(seed, false);
    p.shape = "manyflood".into();
    let template = p.queries[0].clone();
    p.queries.clear();
    p.clock_jumps.clear();
    let nflood = *r.pick(&[20usize, 100, 300, 500]);
    let per = r.range(6, 14);
    let mut t = 2_000u64;
    let mut port = 1100u16;
    let mut srcs = vec![];
    for i in 0..nflood {
        let src = IpAddr::V4(Ipv4Addr::new(198, 18, (i / 250) as u8, (i % 250) as u8 + 1));
        srcs.push(src);
        for k in 0..per {
            let mut q = template.clone();
            q.at_ms = t;
            t += 1;
            q.src_ip = src;
            port = if port >= 60000 { 1100 } else { port + 1 };
            q.src_port = port;
            q.id = r.below(65536) as u16;
            q.qname = Name::parse(&format!("m{}x{}.example", i, k));
            q.flood = true;
            q.quiet_probe = false;
            p.queries.push(q);
        }
    }
    /* a source nobody has heard of */
    t += 3_000;
    for j in 0..3u8 {
        let mut q = template.clone();
        q.at_ms = t + j as u64 * 10;
        q.src_ip = IpAddr::V4(Ipv4Addr::new(203, 0, 113, r.range(1, 250) as u8));
        q.src_port = 900 + j as u16;
        q.id = r.below(65536) as u16;
        q.qname = Name::parse(&format!("fresh{}.example", j));
        q.flood = false;
        q.quiet_probe = true;
        if !p.queries.iter().any(|o| o.src_ip == q.src_ip) {
            p.queries.push(q);
        }
    }
    /* after everybody has been silent for longer than the refill period */
    t += 700_000;
    let mut q = template.clone();
    q.at_ms = t;
    q.src_ip = *r.pick(&srcs);
    q.src_port = 950;
    q.id = r.below(65536) as u16;
    q.qname = Name::parse("after-silence.example");
    q.flood = false;
    q.quiet_probe = true;
    p.queries.push(q);
    p.queries.sort_by_key(|q| q.at_ms);
    p
}

pub fn generate_flood(seed: u64, cookie: bool) -> PlanB {
    let mut r = Rng::new(seed, "plan-b-flood");
    let mut p = generate(seed ^ 0x55aa, &GenB { shape: "floodbase", thorough: false });
    p.shape = if cookie { "cookie".into() } else { "flood".into() };
    p.queries.clear();
    p.acls = None;
    p.out_loss_p = 0.0;
    p.listeners = vec![if r.chance(0.5) { "default".to_string() } else { "0.0.0.0:53".to_string() }];
    p.routes = vec![RouteM { suffixes: vec!["".into()], kind: RouteKind::Forward(0) }];
    p.lan4_alias = Some(Ipv4Addr::from(u32::from(p.lan4.0) + 1));
    let lan = p.lan4.0;
    let mk = |r: &mut Rng, at_ms: u64, src: IpAddr, port: u16, dst: Ipv4Addr, qname: String, qtype: u16, edns: Option<EdnsSpec>| QuerySpec {
        at_ms,
        src_ip: src,
        src_port: port,
        tcp: false,
        dst: std::net::SocketAddr::new(IpAddr::V4(dst), 53),
        qname: Name::parse(&qname),
        qtype,
        qclass: 1,
        rd: true,
        cd: false,
        id: r.below(65536) as u16,
        edns,
        tcp_split: vec![],
        ans: AnsSpec { seed: r.next_u64(), rcode: 0, counts: [1, 0, 0], ttl_mode: 1, fixed_ttl: 30, pad: 0, compress: true, share_names: false, with_opt: true, steer_total: None },
        up: UpBehaviour::Normal { delay_ms: 20 },
        up_tcp: UpTcp::Normal,
        dup_in: false,
        raw: None,
        flood: false,
        exempt: false,
        quiet_probe: false,
        liveness_probe: false,
        after_faults: false,
        ttl_boundary: None,
            tcp_idle_off: None,
            conn: None,
            tcp_prefix: None,
    };
    let mut port = 1024u16;
    let mut next_port = || {
        port += 1;
        port
    };
    let n = *r.pick(&[10usize, 100, 100, 1000]);
    if !cookie {
        /* a source outside every ACL prefix: refused by policy */
        let x = IpAddr::V4(Ipv4Addr::new(203, 0, 113, r.range(20, 200) as u8));
        let y = IpAddr::V4(Ipv4Addr::new(203, 0, 113, r.range(201, 250) as u8));
        /* a source never seen before asks once */
        let mut q = mk(&mut r, 500, y, next_port(), lan, "fresh.example".into(), T_A, None);
        q.quiet_probe = true;
        p.queries.push(q);
        let t0 = 2_000u64;
        let spread = *r.pick(&[0u64, 0, 1, 20]);
        for i in 0..n {
            let sz = if r.chance(0.5) { Some(EdnsSpec { size: 1232, do_bit: false, cookie: CookieSpec::None, client_cookie: [0; 8], nsid: r.chance(0.3), extra: vec![] }) } else { None };
            let mut q = mk(&mut r, t0 + (i as u64 * spread) / 10, x, next_port(), lan, format!("f{}.example", i), T_A, sz);
            q.flood = true;
            p.queries.push(q);
        }
        /* trickle */
        let mut t = t0 + 5_000;
        for i in 0..r.range(0, 20) {
            t += r.range(100, 30_000);
            let mut q = mk(&mut r, t, x, next_port(), lan, format!("t{}.example", i), T_A, None);
            q.flood = true;
            p.queries.push(q);
        }
        {
            /* sometimes the wall clock is stepped back by more than a whole refill period
             * right after the flood, and the source floods again */
            let mut k = Rng::new(seed, "plan-b-flood-backstep");
            if k.chance(0.3) {
                t += 2_000;
                p.clock_jumps.push((t, -(*k.pick(&[600i64, 2_000, 5_000]))));
                t += 1_000;
                let m = *k.pick(&[50usize, 300, 1000]);
                for i in 0..m {
                    let mut q = mk(&mut r, t + i as u64 / 20, x, next_port(), lan, format!("b{}.example", i), T_A, None);
                    q.flood = true;
                    p.queries.push(q);
                }
                t += 1_000;
            }
        }
        /* then silence for longer than any refill period, and one more query */
        t += r.range(600_000, 4_000_000);
        let mut q = mk(&mut r, t, x, next_port(), lan, "after-silence.example".into(), T_A, None);
        q.quiet_probe = true;
        p.queries.push(q);
        if r.chance(0.5) {
            /* a wall-clock step while the source is quiet */
            p.clock_jumps.push((t - 300_000, *r.pick(&[-3i64, 5, 120])));
        }
        {
            /* long after everything else, a permitted source that never asked before draws a
             * REFUSED from its upstream that carries a record (300-440 octets on the wire): the
             * limiter charges relayed refusals by size too, and a full bucket covers this one */
            let mut k = Rng::new(seed, "plan-b-flood-relayed-refusal");
            if k.chance(0.35) {
                let z = IpAddr::V4(Ipv4Addr::from(u32::from(lan) + k.range(10, 200) as u32));
                let mut q = mk(&mut k, t + 1_200_000, z, 999, lan, "relayed-refusal.example".into(), T_A, None);
                q.ans = AnsSpec { seed: k.next_u64(), rcode: 5, counts: [1, 0, 0], ttl_mode: 1, fixed_ttl: 30, pad: 0, compress: true, share_names: false, with_opt: true, steer_total: Some(k.range(300, 440) as usize) };
                q.quiet_probe = true;
                p.queries.push(q);
            }
        }
        {
            /* the quiet-source probes sometimes draw the largest REFUSED erbium can produce (a
             * question of 255 octets echoed back, NSID, a fresh server cookie, the extended
             * error text): the limiter charges by reply size, and a full bucket must cover
             * even that */
            let mut k = Rng::new(seed, "plan-b-flood-bigprobe");
            if k.chance(0.35) {
                for q in p.queries.iter_mut().filter(|q| q.quiet_probe && q.ans.rcode != 5) {
                    let tail = *k.pick(&[61usize, 60, 53, 40]);
                    let l = |n: usize, c: char| std::iter::repeat(c).take(n).collect::<String>();
                    q.qname = Name::parse(&format!("{}.{}.{}.{}", l(63, 'a'), l(63, 'b'), l(63, 'c'), l(tail, 'd')));
                    let mut cc = [0u8; 8];
                    k.fill(&mut cc);
                    q.edns = Some(EdnsSpec { size: 1232, do_bit: k.chance(0.5), cookie: CookieSpec::ClientOnly, client_cookie: cc, nsid: true, extra: vec![] });
                }
            }
        }
    } else {
        /* a permitted client learns a server cookie, then asks for things that are refused
         * for another reason (ANY) */
        let c = IpAddr::V4(Ipv4Addr::from(u32::from(lan) + r.range(10, 100) as u32));
        let other = IpAddr::V4(Ipv4Addr::from(u32::from(lan) + r.range(101, 200) as u32));
        let mut cc = [0u8; 8];
        r.fill(&mut cc);
        let ed = |cookie: CookieSpec, cc: [u8; 8]| Some(EdnsSpec { size: 1232, do_bit: false, cookie, client_cookie: cc, nsid: false, extra: vec![] });
        p.queries.push(mk(&mut r, 1000, c, next_port(), lan, "learn.example".into(), T_A, ed(CookieSpec::ClientOnly, cc)));
        let variant = r.below(9);
        p.cookie_case = ["valid", "other_client_address", "other_server_address", "other_client_cookie", "forged", "two_key_rotations_old", "valid_prefix_only", "valid_plus_extra_octets", "forged_under_all_zero_key"][variant as usize].to_string();
        let guessed_form = r.below(4) as u8;
        match variant {
            6 => p.cookie_mangle = Some((*r.pick(&[8usize, 16, 24, 31]), vec![])),
            7 => p.cookie_mangle = Some((32, r.bytes(*r.clone().pick(&[1usize, 8])))),
            _ => (),
        }
        let mut t = 3_000u64;
        if variant == 5 {
            /* cookie-bearing traffic at +37 h and +74 h forces two key rotations */
            for (i, h) in [37u64, 74].iter().enumerate() {
                let mut q = mk(&mut r, h * 3_600_000, c, next_port(), lan, format!("rotate{}.example", i), T_A, ed(CookieSpec::ClientOnly, cc));
                /* the service must still answer after a day and a half of uptime (C05) */
                q.liveness_probe = true;
                p.queries.push(q);
            }
            t = 75 * 3_600_000;
        }
        for i in 0..n {
            let (src, dst, cookie_cc) = match variant {
                1 => (other, lan, cc),
                2 => (c, p.lan4_alias.unwrap(), cc),
                3 => {
                    let mut o = cc;
                    o[0] ^= 0xff;
                    (c, lan, o)
                }
                _ => (c, lan, cc),
            };
            let spec = match variant {
                4 => CookieSpec::Forged,
                8 => CookieSpec::ForgedUnderGuessedKey { key: vec![0; 8], form: guessed_form },
                _ => CookieSpec::FromQuery(0),
            };
            let mut q = mk(&mut r, t + i as u64 / 50, src, next_port(), dst, format!("any{}.example", i), T_ANY, ed(spec, cookie_cc));
            q.flood = true;
            q.exempt = variant == 0;
            p.queries.push(q);
        }
    }
    p.queries.sort_by_key(|q| q.at_ms);
    /* FromQuery indices refer to the learn query: keep it first */
    p
}

/// Structure-aware damage to a DNS message.
pub fn mutate_dns(r: &mut Rng, mut b: Vec<u8>) -> Vec<u8> {
    if b.len() < 12 {
        return b;
    }
    for _ in 0..r.range(1, 3) {
        if b.len() < 16 {
            break;
        }
        match r.below(12) {
            0 => {
                let cut = r.below(b.len() as u64 + 1) as usize;
                b.truncate(cut);
            }
            1 => {
                /* a count field */
                let f = 4 + 2 * r.below(4) as usize;
                let v = *r.pick(&[0u16, 1, 2, 255, 256, 65535]);
                if b.len() >= f + 2 {
                    b[f..f + 2].copy_from_slice(&v.to_be_bytes());
                }
            }
            2 if b.len() > 13 => {
                /* a label length or pointer somewhere in a name */
                let i = 12 + r.below((b.len() - 12) as u64) as usize;
                b[i] = *r.pick(&[0u8, 1, 63, 64, 0x80, 0xbf, 0xc0, 0xc0, 0xff]);
                if i + 1 < b.len() && r.chance(0.5) {
                    b[i + 1] = *r.pick(&[0u8, 12, i as u8, (i as u8).wrapping_sub(1), 0xff]);
                }
            }
            3 if b.len() > 14 => {
                let i = 12 + r.below((b.len() - 13) as u64) as usize;
                let v = *r.pick(&[0u16, 1, 7, 8, 9, 0x7fff, 0xffff]);
                b[i..i + 2].copy_from_slice(&v.to_be_bytes());
            }
            4 => {
                let i = r.below(b.len() as u64) as usize;
                b[i] ^= 1 << r.below(8);
            }
            5 => {
                let n = r.range(1, 40) as usize;
                b.extend(r.bytes(n));
            }
            _ => (),
        }
    }
    b
}

/// An OPT record with option payloads of every awkward length.
pub fn hostile_opt(r: &mut Rng) -> Rr {
    let mut opts = vec![];
    for _ in 0..r.range(1, 3) {
        let code = *r.pick(&[10u16, 10, 10, 15, 15, 3, 8, 12, 65001]);
        let n = *r.pick(&[0usize, 1, 2, 3, 7, 8, 9, 15, 16, 17, 24, 31, 32, 33, 39, 40, 41, 300]);
        opts.push((code, r.bytes(n)));
    }
    Rr { name: Name(vec![]), rtype: T_OPT, class: *r.pick(&[0u16, 512, 1232, 65535]), ttl: if r.chance(0.2) { r.next_u64() as u32 } else { 0 }, rdata: RData::Opt(opts) }
}

fn add_hostile(p: &mut PlanB, r: &mut Rng) {
    /* hostile queries, and well-formed ones whose upstream reply is hostile, each followed
     * by a liveness probe */
    let base: Vec<QuerySpec> = p.queries.clone();
    let mut out: Vec<QuerySpec> = vec![];
    let mut port = 60000u16;
    for (i, q) in base.iter().enumerate() {
        let mut h = q.clone();
        h.src_port = port;
        port += 1;
        h.up = UpBehaviour::Normal { delay_ms: 10 };
        h.up_tcp = UpTcp::Normal;
        h.dup_in = false;
        h.tcp_split = vec![];
        match r.below(3) {
            0 => {
                /* a query that is damaged on the wire */
                let m = query(h.id, &h.qname, h.qtype, h.qclass, h.rd, h.cd, None);
                let mut m = m;
                if r.chance(0.7) {
                    m.additional.push(hostile_opt(r));
                }
                let bytes = encode(&m, false);
                h.raw = Some(if r.chance(0.5) { mutate_dns(r, bytes) } else { bytes });
                if r.chance(0.1) {
                    let n = *r.pick(&[0usize, 1, 11, 12, 13, 100]);
                    h.raw = Some(r.bytes(n));
                }
                {
                    /* over TCP, sometimes with a length prefix that lies */
                    let mut k = Rng::new(h.ans.seed ^ i as u64, "hostile-tcp-framing");
                    if k.chance(0.35) {
                        h.tcp = true;
                        let len = h.raw.as_ref().map(|b| b.len()).unwrap_or(0) as u16;
                        if k.chance(0.7) {
                            h.tcp_prefix = Some(*k.pick(&[0u16, 1, 2, 11, 12, len.saturating_sub(1), len.saturating_add(1), len.saturating_add(100), 65535]));
                        }
                    }
                }
            }
            1 => {
                /* a well-formed query with awkward EDNS options */
                h.edns = Some(EdnsSpec {
                    size: *r.pick(&[0u16, 512, 1232, 65535]),
                    do_bit: r.chance(0.5),
                    cookie: CookieSpec::Malformed(*r.pick(&[0usize, 1, 7, 8, 9, 15, 16, 39, 40, 41])),
                    client_cookie: [7; 8],
                    nsid: r.chance(0.5),
                    extra: if r.chance(0.5) { vec![(15, r.bytes(*r.clone().pick(&[0usize, 1, 2, 3])))] } else { vec![] },
                });
                h.raw = Some(vec![]); /* marker: judged as hostile, bytes built at run time */
                h.raw = None;
                h.flood = true; /* not individually judged: erbium may answer FORMERR-like or normally */
            }
            _ => {
                h.up = UpBehaviour::Hostile { seed: r.next_u64() };
                h.flood = true;
                if r.chance(0.5) {
                    /* make erbium fetch it over TCP */
                    h.tcp = true;
                }
            }
        }
        h.qname = Name::parse(&format!("h{}.{}", i, q.qname.to_text()));
        let at = h.at_ms;
        if matches!(h.up, UpBehaviour::Hostile { .. }) {
            /* whatever erbium kept of the hostile reply is exercised by asking again for the
             * same key a little later (not judged; a panic is) */
            for (j, later) in [1_200u64, 3_500, 40_000].iter().enumerate() {
                let mut again = h.clone();
                again.at_ms = at + later;
                again.src_port = 62_000 + (i as u16 % 1000) * 3 + j as u16;
                again.id = r.below(65536) as u16;
                again.up = UpBehaviour::Normal { delay_ms: 10 };
                again.flood = true;
                again.tcp = j == 1 && again.tcp;
                out.push(again);
            }
        }
        out.push(h);
        let mut probe = q.clone();
        probe.at_ms = at + 1500;
        probe.src_port = port;
        port += 1;
        probe.qname = Name::parse(&format!("alive{}.{}", i, q.qname.to_text()));
        probe.up = UpBehaviour::Normal { delay_ms: 10 };
        probe.up_tcp = UpTcp::Normal;
        probe.ans.rcode = 0;
        probe.dup_in = false;
        probe.tcp_split = vec![];
        probe.liveness_probe = true;
        out.push(probe);
    }
    p.queries = out;
    p.out_loss_p = 0.0;
    p.out_dup_p = 0.0;
    p.upstream_tcp = p.upstream_tcp.iter().map(|_| "accept".to_string()).collect();
    p.acls = None;
}
