//! World C: the router-advertisement and LLDP services on the simulated
//! host.  Used by C05: hostile ICMPv6 messages and LLDP frames are delivered
//! to the running services; no panic may occur and the services must go on
//! answering (RA to a well-formed solicitation; LLDP socket drained).

use crate::common::RunResult;
use crate::kernel::{Iface, KHandle, Kernel, Knobs, OutKind};
use crate::rng::Rng;
use serde::{Deserialize, Serialize};
use std::net::{Ipv4Addr, Ipv6Addr};
use std::sync::Arc;
use tokio::time::{Duration, Instant};

#[derive(Clone, Debug, Serialize, Deserialize)]
pub enum StepC {
    /// ICMPv6 message (type, code, checksum, body) from a neighbour
    Icmp6 { data: Vec<u8>, to_all_routers: bool },
    /// a well-formed router solicitation that must be answered
    Solicit,
    /// an Ethernet frame with ethertype 0x88cc
    Lldp { frame: Vec<u8> },
    /// let the unsolicited advertisement timer run
    Wait { ms: u64 },
}

#[derive(Clone, Debug, Serialize, Deserialize)]
pub struct PlanC {
    pub seed: u64,
    pub shape: String,
    pub prefix: Ipv6Addr,
    pub ra_config: String,
    pub steps: Vec<(u64, StepC)>,
    pub wall_base: i64,
    pub spurious_p: f64,
    pub yield_p: f64,
    /// probability that an ICMPv6 or LLDP send of erbium fails (ENOBUFS, EPERM, ...)
    #[serde(default)]
    pub send_err_p: f64,
}

fn nd_option(r: &mut Rng) -> Vec<u8> {
    let t = *r.pick(&[1u8, 2, 3, 3, 5, 24, 25, 25, 31, 31, 37, 38, 38, 108, 0, 255, 14]);
    let units = *r.pick(&[0u8, 1, 1, 2, 2, 3, 4, 5, 7, 32, 255]);
    let mut body = r.bytes((units as usize * 8).saturating_sub(2).min(600));
    match t {
        3 if !body.is_empty() => body[0] = *r.pick(&[0u8, 1, 63, 64, 65, 127, 128, 129, 255]),
        31 | 25 if body.len() > 6 => {
            for b in body.iter_mut().skip(6).step_by(*r.pick(&[1usize, 2, 5])) {
                *b = *r.pick(&[0u8, 1, 63, 64, 0xc0, 0xff]);
            }
        }
        38 if body.len() > 1 => body[1] = r.below(256) as u8,
        _ => (),
    }
    let mut v = vec![t, units];
    v.extend(body);
    if r.chance(0.15) {
        let cut = r.below(v.len() as u64 + 1) as usize;
        v.truncate(cut);
    }
    v
}

pub fn hostile_icmp6(r: &mut Rng) -> Vec<u8> {
    if r.chance(0.08) {
        let n = *r.pick(&[0usize, 1, 3, 4, 7, 8, 15, 16, 100]);
        return r.bytes(n);
    }
    let ty = *r.pick(&[133u8, 133, 133, 134, 134, 134, 135, 136, 137, 128, 0, 255]);
    let mut v = vec![ty, if r.chance(0.9) { 0 } else { r.below(256) as u8 }, 0, 0];
    if ty == 134 {
        /* hop limit, flags, lifetime, reachable, retrans */
        v.extend(r.bytes(12));
    } else {
        v.extend_from_slice(&[0, 0, 0, 0]);
    }
    for _ in 0..r.range(0, 5) {
        v.extend(nd_option(r));
    }
    if r.chance(0.1) {
        let cut = r.below(v.len() as u64 + 1) as usize;
        v.truncate(cut);
    }
    v
}

fn lldp_tlv(t: u8, val: &[u8]) -> Vec<u8> {
    let l = val.len().min(511) as u16;
    let hdr = ((t as u16) << 9) | l;
    let mut v = hdr.to_be_bytes().to_vec();
    v.extend_from_slice(&val[..l as usize]);
    v
}

pub fn hostile_lldp(r: &mut Rng) -> Vec<u8> {
    let mut f = vec![0x01, 0x80, 0xc2, 0x00, 0x00, 0x0e, 0x02, 0x00, 0x00, 0x00, 0x55, r.below(250) as u8, 0x88, 0xcc];
    if r.chance(0.05) {
        f.extend(r.bytes(*r.clone().pick(&[0usize, 1, 2, 3, 100])));
        return f;
    }
    /* the mandatory TLVs, each possibly with an awkward length */
    let weird = |r: &mut Rng, normal: usize| -> usize { if r.chance(0.25) { *r.pick(&[0usize, 1, 2, 3, 255, 256, 511]) } else { normal } };
    let n = weird(r, 7);
    let mut chassis = vec![*r.pick(&[0u8, 1, 2, 3, 4, 5, 6, 7, 8, 255])];
    chassis.extend(r.bytes(n.saturating_sub(1)));
    chassis.truncate(n);
    f.extend(lldp_tlv(1, &chassis));
    let n = weird(r, 4);
    let mut port = vec![*r.pick(&[0u8, 1, 2, 3, 4, 5, 6, 7, 8, 255])];
    port.extend(r.bytes(n.saturating_sub(1)));
    port.truncate(n);
    f.extend(lldp_tlv(2, &port));
    let n = weird(r, 2);
    f.extend(lldp_tlv(3, &r.bytes(n)));
    for _ in 0..r.range(0, 5) {
        let t = *r.pick(&[4u8, 5, 6, 7, 7, 8, 8, 8, 127, 127, 9, 126, 0]);
        let n = weird(r, *r.clone().pick(&[4usize, 6, 9, 12, 20]));
        let mut val = r.bytes(n);
        if t == 8 && !val.is_empty() {
            /* management address: address string length, interface numbering, OID length */
            val[0] = *r.pick(&[0u8, 1, 2, 5, 17, 31, 32, 255]);
            let k = val.len();
            if k > 7 {
                val[k - 1] = *r.pick(&[0u8, 1, 128, 255]);
            }
        }
        if t == 127 && val.len() > 3 {
            val[3] = r.below(12) as u8;
        }
        f.extend(lldp_tlv(t, &val));
    }
    if r.chance(0.8) {
        f.extend(lldp_tlv(0, &[]));
    }
    if r.chance(0.15) {
        let cut = 14 + r.below((f.len() - 14) as u64 + 1) as usize;
        f.truncate(cut);
    }
    if r.chance(0.1) {
        /* the length field of the last TLV points past the end of the frame */
        let k = f.len();
        if k > 16 {
            f[k - 2] |= 1;
            f[k - 1] = 0xff;
        }
    }
    f
}

pub fn generate(seed: u64, thorough: bool) -> PlanC {
    let mut r = Rng::new(seed, "plan-c");
    let prefix = Ipv6Addr::new(0x2001, 0xdb8, r.range(1, 0xfff) as u16, 0, 0, 0, 0, 0);
    let ra_config = match r.below(4) {
        0 => String::new(),
        1 => "router-advertisements:\n  lan0:\n    lifetime: 1h\n    mtu: 1480\n    prefixes:\n      - prefix: 2001:db8:aaaa::/64\n    dns-servers:\n      addresses: [\"$self6\", \"2001:db8::53\"]\n      lifetime: 10m\n    dns-search:\n      domains: [\"example.org\", \"lan.example.org\"]\n    pref64:\n      prefix: \"64:ff9b::/96\"\n    captive-portal: \"https://portal.example/\"\n".to_string(),
        2 => "dns-search: [\"a.example\", \"b.example\"]\ncaptive-portal: \"https://p.example/x\"\ndns-servers: [\"$self6\", \"$self4\"]\n".to_string(),
        _ => "router-advertisements:\n  lan0:\n    hop-limit: 64\n    managed: true\n    other: true\n    reachable: 30s\n    retransmit: 1s\n    mtu: null\n".to_string(),
    };
    let mut steps = vec![];
    let mut t = 1000u64;
    for _ in 0..r.range(8, if thorough { 80 } else { 40 }) {
        t += *r.pick(&[1u64, 5, 50, 500, 5_000]);
        match r.below(10) {
            0..=4 => {
                steps.push((t, StepC::Icmp6 { data: hostile_icmp6(&mut r), to_all_routers: r.chance(0.7) }));
                t += 20;
                steps.push((t, StepC::Solicit));
            }
            5..=8 => steps.push((t, StepC::Lldp { frame: hostile_lldp(&mut r) })),
            _ => {
                let ms = r.range(100_000, 700_000);
                steps.push((t, StepC::Wait { ms }));
                t += ms;
            }
        }
    }
    t += 10;
    steps.push((t, StepC::Solicit));
    PlanC { seed, shape: "hostile".into(), prefix, ra_config, steps, wall_base: 1_700_000_000 + r.below(100_000_000) as i64, spurious_p: if r.chance(0.3) { 0.05 } else { 0.0 }, yield_p: if r.chance(0.3) { 0.2 } else { 0.0 }, send_err_p: { let mut k = Rng::new(seed, "plan-c-send-err"); if k.chance(0.25) { *k.pick(&[0.05, 0.3]) } else { 0.0 } } }
}

pub async fn run_async(plan: &PlanC, trace: bool) -> RunResult {
    let mut res = RunResult { seed: plan.seed, world: "C".into(), shape: plan.shape.clone(), ..Default::default() };
    let lan6 = Ipv6Addr::from(u128::from(plan.prefix) | 1);
    let ifaces = vec![
        Iface { ifidx: 1, name: "lo".into(), mac: [0; 6], mtu: 65536, v4: vec![(Ipv4Addr::LOCALHOST, 8)], v6: vec![(Ipv6Addr::LOCALHOST, 128)], multicast: false },
        Iface { ifidx: 2, name: "lan0".into(), mac: [2, 0, 0x5e, 0x30, 0, 1], mtu: 1500, v4: vec![(Ipv4Addr::new(192, 0, 2, 1), 24)], v6: vec![(Ipv6Addr::new(0xfe80, 0, 0, 0, 0, 0, 0, 1), 64), (lan6, 64)], multicast: true },
    ];
    let kernel = Kernel::new(plan.seed, ifaces.clone(), None, Knobs { spurious_p: plan.spurious_p, yield_p: plan.yield_p, send_err_p: plan.send_err_p, ..Default::default() }, trace);
    erbium_net::sim::install(Some(std::rc::Rc::new(KHandle(kernel.clone()))));
    crate::interpose::arm(plan.seed, plan.wall_base, 16);
    let t0 = Instant::now();
    let yaml = format!("---\naddresses: [\"192.0.2.0/24\", \"{}/64\"]\napi-listeners: []\n{}", plan.prefix, plan.ra_config);
    let conf = match erbium::config::load_config_from_string_verif(&yaml) {
        Ok(c) => c,
        Err(e) => {
            res.harness_error = Some(format!("config rejected: {}\n{}", e, yaml));
            erbium_net::sim::install(None);
            return res;
        }
    };
    let netinfo = crate::wa_exec::netinfo_of(&ifaces);
    let radv = match erbium::radv::RaAdvService::new(netinfo, conf) {
        Ok(s) => Arc::new(s),
        Err(e) => {
            res.harness_error = Some(format!("RaAdvService::new failed: {}", e));
            erbium_net::sim::install(None);
            return res;
        }
    };
    let ra_task = tokio::spawn(async move {
        let _ = radv.run().await;
    });
    let lldp = match erbium::lldp::LldpService::new() {
        Ok(s) => s,
        Err(e) => {
            res.harness_error = Some(format!("LldpService::new failed: {}", e));
            erbium_net::sim::install(None);
            return res;
        }
    };
    let lldp_task = tokio::spawn(async move {
        lldp.run().await;
    });
    tokio::time::sleep(Duration::from_millis(1)).await;
    let neigh = Ipv6Addr::new(0xfe80, 0, 0, 0, 0, 0, 0, 0x99);
    let all_routers: Ipv6Addr = "ff02::2".parse().unwrap();
    let mut nontrivial = 0u64;
    for (si, (at, step)) in plan.steps.iter().enumerate() {
        tokio::time::sleep_until(t0 + Duration::from_millis(*at)).await;
        let _ = kernel.take_out();
        match step {
            StepC::Icmp6 { data, to_all_routers } => {
                kernel.inject_icmp6(2, neigh, if *to_all_routers { all_routers } else { lan6 }, data);
                *res.faults.entry("hostile_icmp6".into()).or_insert(0) += 1;
                tokio::time::sleep(Duration::from_millis(2)).await;
            }
            StepC::Solicit => {
                /* RS with a source link-layer address option */
                let rs = vec![133u8, 0, 0, 0, 0, 0, 0, 0, 1, 1, 2, 0, 0, 0, 0, 0x99];
                kernel.inject_icmp6(2, neigh, all_routers, &rs);
                tokio::time::sleep(Duration::from_millis(2)).await;
                let mut outs = kernel.take_out();
                if outs.iter().any(|o| o.injected) {
                    /* the advertisement was lost to a failed sendmsg: the service must answer
                     * the next solicitation, sent with the fault switched off */
                    *res.faults.entry("sendmsg_error".into()).or_insert(0) += 1;
                    res.probe("C05.router_advertisement_lost_to_a_failed_sendmsg");
                    kernel.with(|k| k.knobs.send_err_p = 0.0);
                    kernel.inject_icmp6(2, neigh, all_routers, &rs);
                    tokio::time::sleep(Duration::from_millis(2)).await;
                    outs = kernel.take_out();
                    let p = plan.send_err_p;
                    kernel.with(|k| k.knobs.send_err_p = p);
                }
                let answered = outs.iter().any(|o| matches!(&o.kind, OutKind::Icmp6 { data, dst, .. } if data.first() == Some(&134) && *dst == neigh && o.errno.is_none()));
                res.probe("C05.router_solicitation_probe");
                nontrivial += 1;
                if !answered {
                    let errs: Vec<_> = outs.iter().filter_map(|o| o.errno).collect();
                    res.violate("C05", "C05.ra_service_stopped_answering", format!("a well-formed router solicitation (step {}) got no router advertisement; send errors {:?}", si, errs), si);
                }
            }
            StepC::Lldp { frame } => {
                if frame.len() >= 14 {
                    kernel.inject_frame(2, frame);
                    *res.faults.entry("hostile_lldp_frame".into()).or_insert(0) += 1;
                    tokio::time::sleep(Duration::from_millis(2)).await;
                    nontrivial += 1;
                    if kernel.rx_backlog() > 0 {
                        res.violate("C05", "C05.lldp_service_stopped_reading", format!("the LLDP socket still holds {} unread frame(s) after step {}", kernel.rx_backlog(), si), si);
                    }
                }
            }
            StepC::Wait { ms } => {
                tokio::time::sleep(Duration::from_millis(*ms)).await;
                let outs = kernel.take_out();
                let unsolicited = outs.iter().filter(|o| matches!(&o.kind, OutKind::Icmp6 { data, dst, .. } if data.first() == Some(&134) && dst.is_multicast())).count();
                if unsolicited > 0 {
                    res.probe("C05.unsolicited_advertisement_seen");
                } else if *ms >= 601_000 {
                    res.violate("C05", "C05.unsolicited_advertisements_stopped", format!("no multicast router advertisement within {} ms (MaxRtrAdvInterval is 600 s)", ms), si);
                }
            }
        }
        for (loc, msg) in crate::common::take_panics() {
            res.violate("C05", &format!("C05.panic@{}", loc), format!("panic after step {} ({:?}): {}", si, step, msg).chars().take(700).collect(), si);
        }
    }
    ra_task.abort();
    lldp_task.abort();
    erbium_net::sim::install(None);
    kernel.with(|k| {
        res.events = k.log.n;
        res.event_hash = format!("{:016x}", k.log.hash);
        for (n, v) in &k.stats {
            if n.starts_with("fault.") {
                *res.faults.entry(n.clone()).or_insert(0) += v;
            } else {
                *res.probes.entry(n.clone()).or_insert(0) += v;
            }
        }
        res.trace = k.log.trace.take();
    });
    res.sim_ms = Instant::now().saturating_duration_since(t0).as_millis() as u64;
    res.steps = plan.steps.len();
    res.nontrivial = nontrivial > 0;
    res
}

pub fn run_plan(plan: &PlanC, trace: bool) -> RunResult {
    let rt = tokio::runtime::Builder::new_current_thread().enable_time().start_paused(true).build().unwrap();
    let r = rt.block_on(run_async(plan, trace));
    drop(rt);
    r
}
