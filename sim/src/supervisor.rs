//! Supervisor: runs one simulated execution per fork()ed child, collects the
//! results, minimises failing plans, writes replay files and evidence, and
//! applies the known-findings list.  The supervisor itself never touches
//! tokio, prometheus or erbium state.

use crate::common::{RunResult, Violation};
use serde::{Deserialize, Serialize};
use std::collections::{BTreeMap, BTreeSet};
use std::time::Instant;

/// One unit of work: a complete, explicit plan for one world.
#[derive(Clone, Debug, Serialize, Deserialize)]
pub enum Job {
    A(crate::wa_plan::PlanA),
    B(crate::wb_plan::PlanB),
    C(crate::wc::PlanC),
}

impl Job {
    pub fn seed(&self) -> u64 {
        match self {
            Job::A(p) => p.seed,
            Job::B(p) => p.seed,
            Job::C(p) => p.seed,
        }
    }
    pub fn run(&self, trace: bool) -> RunResult {
        match self {
            Job::A(p) => crate::wa_exec::run_plan(p, &crate::wa_exec::ExecOpts { trace, only: None }),
            Job::B(p) => crate::wb_exec::run_plan(p, &crate::wb_exec::ExecB { trace }),
            Job::C(p) => crate::wc::run_plan(p, trace),
        }
    }
    pub fn size(&self) -> usize {
        match self {
            Job::A(p) => p.steps.len() * 4 + p.clients.len() + p.configs.len(),
            Job::C(p) => p.steps.len() * 4 + p.ra_config.len() / 50,
            Job::B(p) => p.queries.len() * 4 + p.routes.len() + p.upstreams.len() + (p.yield_p > 0.0) as usize + (p.spurious_p > 0.0) as usize + (p.eintr_p > 0.0) as usize + (p.out_loss_p > 0.0) as usize + (p.out_dup_p > 0.0) as usize + (p.out_delay_p > 0.0) as usize,
        }
    }
    /// Smaller variants of this plan, most aggressive first.
    pub fn shrink_candidates(&self) -> Vec<Job> {
        let mut out = vec![];
        match self {
            Job::A(p) => {
                let n = p.steps.len();
                let mut chunk = n / 2;
                while chunk >= 1 {
                    let mut start = 0;
                    while start < n {
                        let mut q = p.clone();
                        let end = (start + chunk).min(n);
                        q.steps.drain(start..end);
                        out.push(Job::A(q));
                        start += chunk;
                    }
                    chunk /= 2;
                }
                for f in 0..4 {
                    let mut q = p.clone();
                    match f {
                        0 if q.yield_p > 0.0 => q.yield_p = 0.0,
                        1 if q.spurious_p > 0.0 => q.spurious_p = 0.0,
                        2 if q.eintr_p > 0.0 => q.eintr_p = 0.0,
                        3 if !q.prefill.is_empty() => q.prefill.clear(),
                        _ => continue,
                    }
                    out.push(Job::A(q));
                }
                /* simplify single messages */
                for (i, s) in p.steps.iter().enumerate() {
                    if let crate::wa_plan::StepKind::Dhcp(m) = &s.kind {
                        if !m.extra.is_empty() || m.flags != 0 || m.giaddr.is_some() {
                            let mut q = p.clone();
                            if let crate::wa_plan::StepKind::Dhcp(mm) = &mut q.steps[i].kind {
                                mm.extra.clear();
                                mm.flags = 0;
                                mm.giaddr = None;
                            }
                            out.push(Job::A(q));
                        }
                    }
                }
            }
            Job::C(p) => {
                let n = p.steps.len();
                let mut chunk = n / 2;
                while chunk >= 1 {
                    let mut start = 0;
                    while start < n {
                        let mut q = p.clone();
                        let end = (start + chunk).min(n);
                        q.steps.drain(start..end);
                        out.push(Job::C(q));
                        start += chunk;
                    }
                    chunk /= 2;
                }
                if !p.ra_config.is_empty() {
                    let mut q = p.clone();
                    q.ra_config.clear();
                    out.push(Job::C(q));
                }
            }
            Job::B(p) => {
                let n = p.queries.len();
                let mut chunk = n / 2;
                while chunk >= 1 {
                    let mut start = 0;
                    while start < n {
                        let end = (start + chunk).min(n);
                        /* queries refer to each other by index (cookies): only drop a
                         * range nothing later points into */
                        let referenced = p.queries[end..].iter().any(|q| matches!(&q.edns, Some(e) if matches!(e.cookie, crate::wb_plan::CookieSpec::FromQuery(i) if i >= start)));
                        if !referenced {
                            let mut q = p.clone();
                            q.queries.drain(start..end);
                            out.push(Job::B(q));
                        }
                        start += chunk;
                    }
                    chunk /= 2;
                }
                for f in 0..8 {
                    let mut q = p.clone();
                    match f {
                        0 if q.yield_p > 0.0 => q.yield_p = 0.0,
                        1 if q.spurious_p > 0.0 => q.spurious_p = 0.0,
                        2 if q.eintr_p > 0.0 => q.eintr_p = 0.0,
                        3 if q.out_loss_p > 0.0 => q.out_loss_p = 0.0,
                        4 if q.out_dup_p > 0.0 => q.out_dup_p = 0.0,
                        5 if q.out_delay_p > 0.0 => q.out_delay_p = 0.0,
                        6 if q.routes.len() > 1 => {
                            q.routes.pop();
                        }
                        7 if !q.clock_jumps.is_empty() => q.clock_jumps.clear(),
                        _ => continue,
                    }
                    out.push(Job::B(q));
                }
            }
        }
        out
    }
}

pub enum Outcome {
    Done(RunResult),
    /// the child died: (signal or exit status description)
    Died(String),
}

fn child_main(job: &Job, trace: bool, wfd: i32) -> ! {
    unsafe {
        /* hangs and runaway allocations are outcomes of the seed, not of the batch */
        let cpu = libc::rlimit { rlim_cur: 60, rlim_max: 70 };
        libc::setrlimit(libc::RLIMIT_CPU, &cpu);
        let mem = libc::rlimit { rlim_cur: 6 << 30, rlim_max: 6 << 30 };
        libc::setrlimit(libc::RLIMIT_AS, &mem);
    }
    crate::common::install_panic_hook();
    crate::common::install_logger(trace);
    crate::vfs::register();
    crate::interpose::arm_rng(job.seed());
    let j = job.clone();
    /* a fresh thread has fresh thread-locals (HashMap keys are drawn from the armed source) */
    let res = std::thread::Builder::new().stack_size(16 << 20).spawn(move || j.run(trace)).unwrap().join();
    let res = match res {
        Ok(r) => r,
        Err(_) => {
            let p = crate::common::take_panics();
            RunResult { seed: job.seed(), harness_error: Some(format!("worker thread panicked: {:?}", p)), ..Default::default() }
        }
    };
    let s = serde_json::to_vec(&res).unwrap();
    let mut off = 0;
    while off < s.len() {
        let n = unsafe { libc::write(wfd, s[off..].as_ptr() as *const libc::c_void, s.len() - off) };
        if n <= 0 {
            break;
        }
        off += n as usize;
    }
    /* development aid (tools/coverage.sh): flush coverage counters, _exit skips atexit */
    #[cfg(esim_cov)]
    unsafe {
        unsafe extern "C" {
            fn __llvm_profile_write_file() -> i32;
        }
        __llvm_profile_write_file();
    }
    unsafe { libc::_exit(0) }
}

/// Run all jobs, at most `workers` at a time; results come back in job order.
pub fn run_jobs(jobs: &[Job], workers: usize, trace: bool, mut on_done: impl FnMut(usize, &Outcome)) -> Vec<Outcome> {
    let mut results: Vec<Option<Outcome>> = (0..jobs.len()).map(|_| None).collect();
    run_lazy(jobs.len(), &|i| jobs[i].clone(), workers, trace, |i, o| {
        on_done(i, &o);
        results[i] = Some(o);
    });
    results.into_iter().map(|o| o.unwrap()).collect()
}

fn read_full(fd: i32, buf: &mut [u8]) -> bool {
    let mut off = 0;
    while off < buf.len() {
        let n = unsafe { libc::read(fd, buf[off..].as_mut_ptr() as *mut libc::c_void, buf.len() - off) };
        if n <= 0 {
            return false;
        }
        off += n as usize;
    }
    true
}

fn write_full(fd: i32, buf: &[u8]) -> bool {
    let mut off = 0;
    while off < buf.len() {
        let n = unsafe { libc::write(fd, buf[off..].as_ptr() as *const libc::c_void, buf.len() - off) };
        if n <= 0 {
            return false;
        }
        off += n as usize;
    }
    true
}

/// A persistent worker process: takes job indices from `cmd_r`, builds the plan
/// (`make` is a pure function of the index), runs it in a fresh grandchild and
/// reports [index u64][wait status i32][length u32][result bytes] on `res_w`.
fn worker_main(make: &dyn Fn(usize) -> Job, trace: bool, cmd_r: i32, res_w: i32) -> ! {
    loop {
        let mut b = [0u8; 8];
        if !read_full(cmd_r, &mut b) {
            unsafe { libc::_exit(0) }
        }
        let idx = u64::from_le_bytes(b) as usize;
        let job = make(idx);
        let mut fds = [0i32; 2];
        assert_eq!(unsafe { libc::pipe2(fds.as_mut_ptr(), libc::O_CLOEXEC) }, 0);
        let pid = unsafe { libc::fork() };
        assert!(pid >= 0, "fork failed");
        if pid == 0 {
            unsafe {
                libc::close(fds[0]);
                libc::close(cmd_r);
                libc::close(res_w);
            }
            child_main(&job, trace, fds[1]);
        }
        unsafe { libc::close(fds[1]) };
        let started = Instant::now();
        let mut buf: Vec<u8> = vec![];
        loop {
            let mut pfd = libc::pollfd { fd: fds[0], events: libc::POLLIN, revents: 0 };
            unsafe { libc::poll(&mut pfd, 1, 1000) };
            if pfd.revents != 0 {
                let mut tmp = [0u8; 65536];
                let n = unsafe { libc::read(fds[0], tmp.as_mut_ptr() as *mut libc::c_void, tmp.len()) };
                if n > 0 {
                    buf.extend_from_slice(&tmp[..n as usize]);
                } else {
                    break;
                }
            } else if started.elapsed().as_secs() > 120 {
                unsafe { libc::kill(pid, libc::SIGKILL) };
            }
        }
        let mut status = 0;
        unsafe {
            libc::waitpid(pid, &mut status, 0);
            libc::close(fds[0]);
        }
        let mut msg = Vec::with_capacity(16 + buf.len());
        msg.extend_from_slice(&(idx as u64).to_le_bytes());
        msg.extend_from_slice(&status.to_le_bytes());
        msg.extend_from_slice(&(buf.len() as u32).to_le_bytes());
        msg.extend_from_slice(&buf);
        if !write_full(res_w, &msg) {
            unsafe { libc::_exit(0) }
        }
    }
}

struct Worker {
    pid: libc::pid_t,
    cmd_w: i32,
    res_r: i32,
    rbuf: Vec<u8>,
    busy: Option<usize>,
    dead: bool,
}

/// Run jobs 0..n, job i being `make(i)`; plans are built and executed in a pool of
/// persistent worker processes (each run in its own freshly forked grandchild), so
/// neither plan generation nor fork() is serialised in the supervisor.
pub fn run_lazy(n: usize, make: &dyn Fn(usize) -> Job, workers: usize, trace: bool, mut on_done: impl FnMut(usize, Outcome)) {
    if n == 0 {
        return;
    }
    let nw = workers.max(1).min(n);
    let mut ws: Vec<Worker> = vec![];
    for _ in 0..nw {
        let mut c = [0i32; 2];
        let mut r = [0i32; 2];
        assert_eq!(unsafe { libc::pipe2(c.as_mut_ptr(), libc::O_CLOEXEC) }, 0);
        assert_eq!(unsafe { libc::pipe2(r.as_mut_ptr(), libc::O_CLOEXEC) }, 0);
        use std::io::Write;
        let _ = std::io::stdout().flush();
        let pid = unsafe { libc::fork() };
        assert!(pid >= 0, "fork failed");
        if pid == 0 {
            unsafe {
                libc::close(c[1]);
                libc::close(r[0]);
                for w in &ws {
                    libc::close(w.cmd_w);
                    libc::close(w.res_r);
                }
            }
            worker_main(make, trace, c[0], r[1]);
        }
        unsafe {
            libc::close(c[0]);
            libc::close(r[1]);
        }
        ws.push(Worker { pid, cmd_w: c[1], res_r: r[0], rbuf: vec![], busy: None, dead: false });
    }
    let mut next = 0usize;
    let mut finished = 0usize;
    let mut requeue: Vec<usize> = vec![];
    let mut attempts: BTreeMap<usize, u32> = BTreeMap::new();
    while finished < n {
        for w in ws.iter_mut() {
            if w.busy.is_none() && !w.dead {
                let idx = if let Some(i) = requeue.pop() {
                    i
                } else if next < n {
                    next += 1;
                    next - 1
                } else {
                    continue;
                };
                if write_full(w.cmd_w, &(idx as u64).to_le_bytes()) {
                    w.busy = Some(idx);
                } else {
                    w.dead = true;
                    requeue.push(idx);
                }
            }
        }
        if ws.iter().all(|w| w.dead) {
            /* no worker left: report what remains as harness failures */
            let mut rest: Vec<usize> = requeue.drain(..).collect();
            rest.extend(next..n);
            for i in rest {
                on_done(i, Outcome::Died("exit status 0 without a result (no worker process left)".into()));
                finished += 1;
            }
            break;
        }
        let live: Vec<usize> = (0..ws.len()).filter(|i| !ws[*i].dead).collect();
        let mut pfds: Vec<libc::pollfd> = live.iter().map(|i| libc::pollfd { fd: ws[*i].res_r, events: libc::POLLIN, revents: 0 }).collect();
        unsafe { libc::poll(pfds.as_mut_ptr(), pfds.len() as libc::nfds_t, 1000) };
        for (pi, p) in pfds.iter().enumerate() {
            if p.revents == 0 {
                continue;
            }
            let w = &mut ws[live[pi]];
            let mut tmp = [0u8; 65536];
            let nr = unsafe { libc::read(w.res_r, tmp.as_mut_ptr() as *mut libc::c_void, tmp.len()) };
            if nr <= 0 {
                /* the worker process itself went away (not a run: those die in grandchildren) */
                w.dead = true;
                if let Some(i) = w.busy.take() {
                    let a = attempts.entry(i).or_insert(0);
                    *a += 1;
                    if *a < 3 {
                        requeue.push(i);
                    } else {
                        on_done(i, Outcome::Died("exit status 0 without a result (worker process died)".into()));
                        finished += 1;
                    }
                }
                continue;
            }
            w.rbuf.extend_from_slice(&tmp[..nr as usize]);
            while w.rbuf.len() >= 16 {
                let len = u32::from_le_bytes(w.rbuf[12..16].try_into().unwrap()) as usize;
                if w.rbuf.len() < 16 + len {
                    break;
                }
                let idx = u64::from_le_bytes(w.rbuf[0..8].try_into().unwrap()) as usize;
                let status = i32::from_le_bytes(w.rbuf[8..12].try_into().unwrap());
                let out = if libc::WIFSIGNALED(status) {
                    Outcome::Died(format!("killed by signal {}", libc::WTERMSIG(status)))
                } else {
                    match serde_json::from_slice::<RunResult>(&w.rbuf[16..16 + len]) {
                        Ok(r) => Outcome::Done(r),
                        Err(_) => Outcome::Died(format!("exit status {} without a result", libc::WEXITSTATUS(status))),
                    }
                };
                w.rbuf.drain(..16 + len);
                w.busy = None;
                on_done(idx, out);
                finished += 1;
            }
        }
    }
    for w in &ws {
        unsafe {
            libc::close(w.cmd_w);
        }
    }
    for w in &ws {
        let mut status = 0;
        unsafe {
            libc::waitpid(w.pid, &mut status, 0);
            libc::close(w.res_r);
        }
    }
}

pub fn outcome_violations(job: &Job, o: &Outcome) -> Vec<Violation> {
    outcome_violations_seed(job.seed(), o)
}

pub fn outcome_violations_seed(seed: u64, o: &Outcome) -> Vec<Violation> {
    match o {
        Outcome::Done(r) => r.violations.clone(),
        Outcome::Died(why) => {
            let kind = if why.contains("signal 24") {
                "C05.unbounded_loop_or_cpu_limit"
            } else if why.contains("signal 11") {
                "C05.segfault_or_stack_overflow"
            } else if why.contains("signal 6") {
                "C05.abort"
            } else {
                "C05.worker_died"
            };
            vec![Violation { property: "C05".into(), kind: kind.into(), detail: format!("worker for seed {} {}", seed, why), step: 0 }]
        }
    }
}

/// Delta-debug `job` while a violation of `kind` persists.
pub fn minimise(job: &Job, kind: &str, budget_s: u64, workers: usize) -> Job {
    let start = Instant::now();
    let mut best = job.clone();
    loop {
        if start.elapsed().as_secs() >= budget_s {
            break;
        }
        let cands = best.shrink_candidates();
        if cands.is_empty() {
            break;
        }
        let mut improved = false;
        for batch in cands.chunks(workers.max(1)) {
            if start.elapsed().as_secs() >= budget_s {
                break;
            }
            let outs = run_jobs(batch, workers, false, |_, _| {});
            let mut pick: Option<usize> = None;
            for (i, o) in outs.iter().enumerate() {
                if outcome_violations(&batch[i], o).iter().any(|v| v.kind == kind) && batch[i].size() < best.size() {
                    if pick.map(|p| batch[i].size() < batch[p].size()).unwrap_or(true) {
                        pick = Some(i);
                    }
                }
            }
            if let Some(i) = pick {
                best = batch[i].clone();
                improved = true;
                break;
            }
        }
        if !improved {
            break;
        }
    }
    best
}

#[derive(Clone, Debug, Serialize, Deserialize)]
pub struct Finding {
    pub status: String, /* "known" or "fixed" */
    pub property: String,
    pub kind: String,
    #[serde(default)]
    pub detail_contains: Option<String>,
    pub what: String,
    #[serde(default)]
    pub commit: Option<String>,
}

pub fn load_findings(path: &str) -> Vec<Finding> {
    match std::fs::read(path) {
        Ok(b) => serde_json::from_slice(&b).unwrap_or_else(|e| {
            eprintln!("harness error: {} does not parse: {}", path, e);
            std::process::exit(2)
        }),
        Err(_) => vec![],
    }
}

pub fn match_finding<'a>(f: &'a [Finding], v: &Violation) -> Option<&'a Finding> {
    f.iter().find(|x| {
        x.status == "known" && x.property == v.property && x.kind == v.kind && x.detail_contains.as_ref().map(|c| v.detail.contains(c.as_str())).unwrap_or(true)
    })
}

#[derive(Clone, Debug, Serialize, Deserialize)]
pub struct Replay {
    pub property: String,
    pub kind: String,
    pub detail: String,
    pub event_hash: String,
    pub job: Job,
}

pub struct BatchSummary {
    pub evaluations: u64,
    pub shapes: BTreeSet<String>,
    pub nontrivial: u64,
    pub probes: BTreeMap<String, u64>,
    pub faults: BTreeMap<String, u64>,
    pub sim_ms: u64,
    pub events: u64,
    pub harness_errors: Vec<String>,
    pub samples: Vec<serde_json::Value>,
    pub by_kind: BTreeMap<String, (Violation, usize)>, /* first job index per kind */
    pub observations: BTreeMap<String, u64>,
}

impl BatchSummary {
    pub fn new() -> Self {
        BatchSummary {
            evaluations: 0,
            shapes: BTreeSet::new(),
            nontrivial: 0,
            probes: BTreeMap::new(),
            faults: BTreeMap::new(),
            sim_ms: 0,
            events: 0,
            harness_errors: vec![],
            samples: vec![],
            by_kind: BTreeMap::new(),
            observations: BTreeMap::new(),
        }
    }
    pub fn add(&mut self, idx: usize, seed: u64, o: &Outcome) {
        self.evaluations += 1;
        if let Outcome::Done(r) = o {
            if let Some(e) = &r.harness_error {
                if self.harness_errors.len() < 5 {
                    self.harness_errors.push(format!("seed {}: {}", r.seed, e));
                }
            }
            /* distinct non-trivial: distinct event-log hashes among runs that produced
             * at least one property-relevant observation */
            if r.nontrivial && self.shapes.insert(r.event_hash.clone()) {
                self.nontrivial += 1;
            }
            for (k, v) in &r.probes {
                *self.probes.entry(k.clone()).or_insert(0) += v;
            }
            for (k, v) in &r.faults {
                *self.faults.entry(k.clone()).or_insert(0) += v;
            }
            for ob in &r.observations {
                let key: String = ob.chars().take(60).collect();
                *self.observations.entry(key).or_insert(0) += 1;
            }
            self.sim_ms += r.sim_ms;
            self.events += r.events;
        }
        for v in outcome_violations_seed(seed, o) {
            self.by_kind.entry(v.kind.clone()).or_insert((v, idx));
        }
    }
}
