//! Counter-based pseudo random numbers: every value is a pure function of
//! (run seed, stream name, counter).  Deleting one planned action during
//! minimisation therefore does not shift the choices made for the others.

pub fn mix64(mut z: u64) -> u64 {
    z = z.wrapping_add(0x9E37_79B9_7F4A_7C15);
    z = (z ^ (z >> 30)).wrapping_mul(0xBF58_476D_1CE4_E5B9);
    z = (z ^ (z >> 27)).wrapping_mul(0x94D0_49BB_1331_11EB);
    z ^ (z >> 31)
}

pub fn hash_str(s: &str) -> u64 {
    let mut h: u64 = 0xcbf2_9ce4_8422_2325;
    for b in s.bytes() {
        h ^= b as u64;
        h = h.wrapping_mul(0x100_0000_01b3);
    }
    h
}

pub fn hash_bytes(mut h: u64, s: &[u8]) -> u64 {
    for b in s {
        h ^= *b as u64;
        h = h.wrapping_mul(0x100_0000_01b3);
    }
    mix64(h)
}

#[derive(Clone, Debug)]
pub struct Rng {
    key: u64,
    ctr: u64,
}

impl Rng {
    pub fn new(seed: u64, stream: &str) -> Self {
        Rng {
            key: mix64(seed ^ mix64(hash_str(stream))),
            ctr: 0,
        }
    }
    pub fn sub(&self, stream: &str) -> Self {
        Rng {
            key: mix64(self.key ^ mix64(hash_str(stream).wrapping_add(1))),
            ctr: 0,
        }
    }
    pub fn subn(&self, n: u64) -> Self {
        Rng {
            key: mix64(self.key ^ mix64(n.wrapping_mul(0x2545_F491_4F6C_DD1D).wrapping_add(7))),
            ctr: 0,
        }
    }
    pub fn next_u64(&mut self) -> u64 {
        self.ctr += 1;
        mix64(self.key ^ mix64(self.ctr))
    }
    pub fn below(&mut self, n: u64) -> u64 {
        if n == 0 { 0 } else { self.next_u64() % n }
    }
    pub fn range(&mut self, lo: u64, hi_incl: u64) -> u64 {
        lo + self.below(hi_incl - lo + 1)
    }
    pub fn chance(&mut self, p: f64) -> bool {
        if p <= 0.0 {
            return false;
        }
        (self.next_u64() >> 11) as f64 / ((1u64 << 53) as f64) < p
    }
    pub fn pick<'a, T>(&mut self, v: &'a [T]) -> &'a T {
        &v[self.below(v.len() as u64) as usize]
    }
    pub fn fill(&mut self, buf: &mut [u8]) {
        for chunk in buf.chunks_mut(8) {
            let v = self.next_u64().to_le_bytes();
            chunk.copy_from_slice(&v[..chunk.len()]);
        }
    }
    pub fn bytes(&mut self, n: usize) -> Vec<u8> {
        let mut v = vec![0u8; n];
        self.fill(&mut v);
        v
    }
    pub fn shuffle<T>(&mut self, v: &mut [T]) {
        for i in (1..v.len()).rev() {
            let j = self.below(i as u64 + 1) as usize;
            v.swap(i, j);
        }
    }
}
