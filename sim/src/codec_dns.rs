//! Independent DNS codec for the client and upstream actors: an encoder
//! (optionally compressing) and a strict decoder that also audits every
//! compression pointer.  Written from RFC 1035/6891/3596/2782 etc., not from
//! erbium's code.

use serde::{Deserialize, Serialize};

#[derive(Clone, Debug, PartialEq, Eq, Hash, PartialOrd, Ord, Serialize, Deserialize, Default)]
pub struct Name(pub Vec<Vec<u8>>);

impl Name {
    pub fn parse(s: &str) -> Name {
        Name(s.split('.').filter(|l| !l.is_empty()).map(|l| l.as_bytes().to_vec()).collect())
    }
    pub fn to_text(&self) -> String {
        if self.0.is_empty() {
            return ".".into();
        }
        self.0.iter().map(|l| String::from_utf8_lossy(l).to_string()).collect::<Vec<_>>().join(".")
    }
    pub fn lower(&self) -> Name {
        Name(self.0.iter().map(|l| l.to_ascii_lowercase()).collect())
    }
    pub fn wire_len(&self) -> usize {
        self.0.iter().map(|l| l.len() + 1).sum::<usize>() + 1
    }
    pub fn ends_with_ci(&self, suffix: &Name) -> bool {
        let a = self.lower();
        let b = suffix.lower();
        a.0.len() >= b.0.len() && a.0[a.0.len() - b.0.len()..] == b.0[..]
    }
}

pub const T_A: u16 = 1;
pub const T_NS: u16 = 2;
pub const T_CNAME: u16 = 5;
pub const T_SOA: u16 = 6;
pub const T_PTR: u16 = 12;
pub const T_MX: u16 = 15;
pub const T_TXT: u16 = 16;
pub const T_RP: u16 = 17;
pub const T_AFSDB: u16 = 18;
pub const T_RT: u16 = 21;
pub const T_AAAA: u16 = 28;
pub const T_NAPTR: u16 = 35;
pub const T_OPT: u16 = 41;
pub const T_ANY: u16 = 255;

#[derive(Clone, Debug, PartialEq, Eq, Serialize, Deserialize)]
pub enum RData {
    /// NS, CNAME, PTR
    Name(Name),
    /// MX, AFSDB, RT
    PrefName(u16, Name),
    Soa { mname: Name, rname: Name, serial: u32, refresh: u32, retry: u32, expire: u32, minimum: u32 },
    Rp(Name, Name),
    Naptr { order: u16, pref: u16, flags: Vec<u8>, services: Vec<u8>, regexp: Vec<u8>, replacement: Name },
    Opt(Vec<(u16, Vec<u8>)>),
    /// every type without embedded names (A, AAAA, TXT, unknown ...)
    Raw(Vec<u8>),
}

#[derive(Clone, Debug, PartialEq, Eq, Serialize, Deserialize)]
pub struct Rr {
    pub name: Name,
    pub rtype: u16,
    pub class: u16,
    pub ttl: u32,
    pub rdata: RData,
}

#[derive(Clone, Debug, PartialEq, Eq, Serialize, Deserialize, Default)]
pub struct Msg {
    pub id: u16,
    /// QR|opcode|AA|TC|RD|RA|Z|AD|CD|rcode, as on the wire
    pub flags: u16,
    pub question: Vec<(Name, u16, u16)>,
    pub answer: Vec<Rr>,
    pub authority: Vec<Rr>,
    pub additional: Vec<Rr>,
}

pub const F_QR: u16 = 0x8000;
pub const F_AA: u16 = 0x0400;
pub const F_TC: u16 = 0x0200;
pub const F_RD: u16 = 0x0100;
pub const F_RA: u16 = 0x0080;
pub const F_AD: u16 = 0x0020;
pub const F_CD: u16 = 0x0010;

impl Msg {
    pub fn rcode_low(&self) -> u16 {
        self.flags & 0xf
    }
    pub fn opt(&self) -> Option<&Rr> {
        self.additional.iter().find(|r| r.rtype == T_OPT)
    }
    /// the full 12-bit response code (header bits plus the OPT extension)
    pub fn rcode(&self) -> u16 {
        self.rcode_low() | self.opt().map(|o| ((o.ttl >> 24) as u16) << 4).unwrap_or(0)
    }
    pub fn tc(&self) -> bool {
        self.flags & F_TC != 0
    }
    pub fn edns_size(&self) -> Option<u16> {
        self.opt().map(|o| o.class)
    }
    pub fn edns_options(&self) -> Vec<(u16, Vec<u8>)> {
        match self.opt().map(|o| &o.rdata) {
            Some(RData::Opt(v)) => v.clone(),
            _ => vec![],
        }
    }
    pub fn non_opt_additional(&self) -> Vec<Rr> {
        self.additional.iter().filter(|r| r.rtype != T_OPT).cloned().collect()
    }
}

struct Enc {
    out: Vec<u8>,
    compress: bool,
    /// (suffix labels lower-cased? no: exact) -> offset
    table: Vec<(Vec<Vec<u8>>, usize)>,
}

impl Enc {
    fn name(&mut self, n: &Name, allow_compress: bool) {
        let labels = &n.0;
        for i in 0..labels.len() {
            let suffix = &labels[i..];
            if self.compress && allow_compress {
                if let Some((_, off)) = self.table.iter().find(|(s, _)| s.as_slice() == suffix) {
                    let off = *off;
                    self.out.push(0xc0 | (off >> 8) as u8);
                    self.out.push(off as u8);
                    return;
                }
            }
            let here = self.out.len();
            if here < 0x4000 {
                self.table.push((suffix.to_vec(), here));
            }
            assert!(!labels[i].is_empty() && labels[i].len() < 64);
            self.out.push(labels[i].len() as u8);
            self.out.extend_from_slice(&labels[i]);
        }
        self.out.push(0);
    }
    fn u16(&mut self, v: u16) {
        self.out.extend_from_slice(&v.to_be_bytes());
    }
    fn u32(&mut self, v: u32) {
        self.out.extend_from_slice(&v.to_be_bytes());
    }
    fn rr(&mut self, r: &Rr) {
        self.name(&r.name, true);
        self.u16(r.rtype);
        self.u16(r.class);
        self.u32(r.ttl);
        let lenpos = self.out.len();
        self.u16(0);
        match &r.rdata {
            RData::Name(n) => self.name(n, true),
            RData::PrefName(p, n) => {
                self.u16(*p);
                /* RFC 3597: only the RFC 1035 types may be compressed */
                let c = r.rtype == T_MX;
                self.name(n, c);
            }
            RData::Soa { mname, rname, serial, refresh, retry, expire, minimum } => {
                self.name(mname, true);
                self.name(rname, true);
                for v in [serial, refresh, retry, expire, minimum] {
                    self.u32(*v);
                }
            }
            RData::Rp(a, b) => {
                self.name(a, false);
                self.name(b, false);
            }
            RData::Naptr { order, pref, flags, services, regexp, replacement } => {
                self.u16(*order);
                self.u16(*pref);
                for s in [flags, services, regexp] {
                    self.out.push(s.len() as u8);
                    self.out.extend_from_slice(s);
                }
                self.name(replacement, false);
            }
            RData::Opt(opts) => {
                for (c, d) in opts {
                    self.u16(*c);
                    self.u16(d.len() as u16);
                    self.out.extend_from_slice(d);
                }
            }
            RData::Raw(d) => self.out.extend_from_slice(d),
        }
        let l = self.out.len() - lenpos - 2;
        assert!(l <= 0xffff);
        self.out[lenpos..lenpos + 2].copy_from_slice(&(l as u16).to_be_bytes());
    }
}

pub fn encode(m: &Msg, compress: bool) -> Vec<u8> {
    let mut e = Enc { out: vec![], compress, table: vec![] };
    e.u16(m.id);
    e.u16(m.flags);
    e.u16(m.question.len() as u16);
    e.u16(m.answer.len() as u16);
    e.u16(m.authority.len() as u16);
    e.u16(m.additional.len() as u16);
    for (n, t, c) in &m.question {
        e.name(n, true);
        e.u16(*t);
        e.u16(*c);
    }
    for r in m.answer.iter().chain(m.authority.iter()).chain(m.additional.iter()) {
        e.rr(r);
    }
    e.out
}

/// One compression pointer found while decoding.
#[derive(Clone, Debug)]
pub struct PtrAudit {
    pub at: usize,
    pub target: usize,
}

pub struct Decoded {
    pub msg: Msg,
    pub pointers: Vec<PtrAudit>,
    /// offsets just past each record, in order (question end first)
    pub record_ends: Vec<usize>,
}

struct Dec<'a> {
    b: &'a [u8],
    pos: usize,
    pointers: Vec<PtrAudit>,
}

impl<'a> Dec<'a> {
    fn u8(&mut self) -> Result<u8, String> {
        let v = *self.b.get(self.pos).ok_or_else(|| format!("truncated at offset {}", self.pos))?;
        self.pos += 1;
        Ok(v)
    }
    fn u16(&mut self) -> Result<u16, String> {
        Ok(((self.u8()? as u16) << 8) | self.u8()? as u16)
    }
    fn u32(&mut self) -> Result<u32, String> {
        Ok(((self.u16()? as u32) << 16) | self.u16()? as u32)
    }
    fn bytes(&mut self, n: usize) -> Result<Vec<u8>, String> {
        if self.pos + n > self.b.len() {
            return Err(format!("{} octets wanted at offset {} but the message ends at {}", n, self.pos, self.b.len()));
        }
        let v = self.b[self.pos..self.pos + n].to_vec();
        self.pos += n;
        Ok(v)
    }
    fn name(&mut self) -> Result<Name, String> {
        let mut labels = vec![];
        let mut p = self.pos;
        let mut jumped = false;
        let mut total = 0usize;
        let mut limit = p; /* a pointer must point strictly before the place it is read from */
        loop {
            let l = *self.b.get(p).ok_or_else(|| format!("name runs past the end at {}", p))? as usize;
            if l == 0 {
                p += 1;
                if !jumped {
                    self.pos = p;
                }
                break;
            } else if l & 0xc0 == 0xc0 {
                let lo = *self.b.get(p + 1).ok_or("truncated compression pointer")? as usize;
                let target = ((l & 0x3f) << 8) | lo;
                self.pointers.push(PtrAudit { at: p, target });
                if target >= limit {
                    return Err(format!("compression pointer at {} points forward or at itself ({})", p, target));
                }
                if !jumped {
                    self.pos = p + 2;
                }
                jumped = true;
                limit = target;
                p = target;
            } else if l & 0xc0 != 0 {
                return Err(format!("label type {:#x} at {}", l, p));
            } else {
                if p + 1 + l > self.b.len() {
                    return Err(format!("label at {} runs past the end", p));
                }
                total += l + 1;
                if total > 254 {
                    return Err("name longer than 255 octets".into());
                }
                labels.push(self.b[p + 1..p + 1 + l].to_vec());
                p += 1 + l;
            }
        }
        Ok(Name(labels))
    }
    fn rr(&mut self) -> Result<Rr, String> {
        let name = self.name()?;
        let rtype = self.u16()?;
        let class = self.u16()?;
        let ttl = self.u32()?;
        let rdlen = self.u16()? as usize;
        let end = self.pos + rdlen;
        if end > self.b.len() {
            return Err(format!("rdata of {} octets at {} runs past the end ({})", rdlen, self.pos, self.b.len()));
        }
        let rdata = match rtype {
            T_NS | T_CNAME | T_PTR => RData::Name(self.name()?),
            T_MX | T_AFSDB | T_RT => RData::PrefName(self.u16()?, self.name()?),
            T_SOA => RData::Soa { mname: self.name()?, rname: self.name()?, serial: self.u32()?, refresh: self.u32()?, retry: self.u32()?, expire: self.u32()?, minimum: self.u32()? },
            T_RP => RData::Rp(self.name()?, self.name()?),
            T_NAPTR => {
                let order = self.u16()?;
                let pref = self.u16()?;
                let mut s = vec![];
                for _ in 0..3 {
                    let l = self.u8()? as usize;
                    s.push(self.bytes(l)?);
                }
                let replacement = self.name()?;
                RData::Naptr { order, pref, flags: s[0].clone(), services: s[1].clone(), regexp: s[2].clone(), replacement }
            }
            T_OPT => {
                let mut opts = vec![];
                while self.pos < end {
                    let c = self.u16()?;
                    let l = self.u16()? as usize;
                    if self.pos + l > end {
                        return Err("EDNS option runs past the OPT rdata".into());
                    }
                    opts.push((c, self.bytes(l)?));
                }
                RData::Opt(opts)
            }
            _ => RData::Raw(self.bytes(rdlen)?),
        };
        if self.pos != end {
            return Err(format!("type {} rdata: rdlength says {} octets but {} were consumed", rtype, rdlen, self.pos + rdlen - end));
        }
        Ok(Rr { name, rtype, class, ttl, rdata })
    }
}

/// Strict decode: counts must match the contents exactly and nothing may follow.
pub fn decode(b: &[u8]) -> Result<Decoded, String> {
    let mut d = Dec { b, pos: 0, pointers: vec![] };
    let id = d.u16()?;
    let flags = d.u16()?;
    let qd = d.u16()?;
    let an = d.u16()?;
    let ns = d.u16()?;
    let ar = d.u16()?;
    let mut m = Msg { id, flags, ..Default::default() };
    let mut record_ends = vec![];
    for _ in 0..qd {
        let n = d.name().map_err(|e| format!("question: {}", e))?;
        m.question.push((n, d.u16()?, d.u16()?));
    }
    record_ends.push(d.pos);
    for (count, which) in [(an, 0), (ns, 1), (ar, 2)] {
        for i in 0..count {
            let r = d.rr().map_err(|e| format!("{} record {} of {}: {}", ["answer", "authority", "additional"][which], i + 1, count, e))?;
            record_ends.push(d.pos);
            match which {
                0 => m.answer.push(r),
                1 => m.authority.push(r),
                _ => m.additional.push(r),
            }
        }
    }
    if d.pos != b.len() {
        return Err(format!("{} trailing octets after the last record", b.len() - d.pos));
    }
    Ok(Decoded { msg: m, pointers: d.pointers, record_ends })
}

pub fn query(id: u16, qname: &Name, qtype: u16, qclass: u16, rd: bool, cd: bool, edns: Option<(u16, bool, Vec<(u16, Vec<u8>)>)>) -> Msg {
    let mut m = Msg { id, flags: if rd { F_RD } else { 0 } | if cd { F_CD } else { 0 }, question: vec![(qname.clone(), qtype, qclass)], ..Default::default() };
    if let Some((size, dobit, opts)) = edns {
        m.additional.push(Rr { name: Name(vec![]), rtype: T_OPT, class: size, ttl: if dobit { 0x8000 } else { 0 }, rdata: RData::Opt(opts) });
    }
    m
}
