//! World A: boot erbium's DHCP service and HTTP API on the simulated host,
//! drive a plan through it and evaluate the oracles of C01, C02, C05, C09,
//! C10, C12, C13, C18 and C20 after every instant.

use crate::addr::{Addr, UnixName};
use crate::codec_dhcp::{self, DhcpMsg};
use crate::common::{hex, RunResult};
use crate::kernel::{Iface, KHandle, Kernel, Knobs, OutKind};
use crate::vfs::{self, Row};
use crate::wa_plan::*;
use std::collections::{BTreeMap, BTreeSet, HashMap};
use std::net::{IpAddr, Ipv4Addr, Ipv6Addr, SocketAddr};
use std::sync::Arc;
use tokio::time::Duration;

pub struct Server {
    pub dhcp: Arc<erbium::dhcp::DhcpService>,
    pub conf: erbium::config::SharedConfig,
    tasks: Vec<tokio::task::JoinHandle<()>>,
}

pub fn ifaces_of(lans: &[Lan]) -> Vec<Iface> {
    let mut v = vec![Iface {
        ifidx: 1,
        name: "lo".into(),
        mac: [0; 6],
        mtu: 65536,
        v4: vec![(Ipv4Addr::LOCALHOST, 8)],
        v6: vec![(Ipv6Addr::LOCALHOST, 128)],
        multicast: false,
    }];
    for l in lans {
        v.push(Iface {
            ifidx: l.ifidx,
            name: l.name.clone(),
            mac: l.mac,
            mtu: l.mtu,
            v4: vec![(l.server_ip, l.plen)],
            v6: vec![(Ipv6Addr::new(0xfe80, 0, 0, 0, 0, 0, 0, l.ifidx as u16), 64), (lan_v6(l), 64)],
            multicast: true,
        });
    }
    v
}

pub fn netinfo_of(ifaces: &[Iface]) -> erbium_net::netinfo::SharedNetInfo {
    use erbium_net::netinfo::LinkLayer;
    erbium_net::netinfo::SharedNetInfo::new_sim(
        ifaces
            .iter()
            .map(|i| {
                let mut addrs: Vec<(IpAddr, u8)> = i.v4.iter().map(|(a, l)| (IpAddr::V4(*a), *l)).collect();
                addrs.extend(i.v6.iter().map(|(a, l)| (IpAddr::V6(*a), *l)));
                (
                    i.ifidx,
                    i.name.clone(),
                    addrs,
                    if i.mac == [0; 6] { LinkLayer::None } else { LinkLayer::Ethernet(i.mac) },
                    i.mtu,
                    i.multicast,
                )
            })
            .collect(),
        vec![],
    )
}

pub async fn boot(ifaces: &[Iface], cfg_text: &str) -> Result<Server, String> {
    let netinfo = netinfo_of(ifaces);
    let conf = erbium::config::load_config_from_string_verif(cfg_text).map_err(|e| format!("config rejected: {}", e))?;
    let dhcp = Arc::new(erbium::dhcp::DhcpService::new(netinfo, conf.clone()).await?);
    let d2 = dhcp.clone();
    let mut tasks = vec![tokio::spawn(async move {
        let _ = d2.run().await;
    })];
    let (d3, c3) = (dhcp.clone(), conf.clone());
    /* main.rs awaits http::run inline; it only binds and spawns */
    let h = tokio::spawn(async move {
        let _ = erbium::http::run(d3, c3).await;
    });
    tasks.push(h);
    Ok(Server { dhcp, conf, tasks })
}

impl Server {
    pub fn abort(&self) {
        for t in &self.tasks {
            t.abort();
        }
    }
}

fn counter(name: &str, label: Option<(&str, &str)>) -> f64 {
    let mut total = 0.0;
    for mf in prometheus::gather() {
        if mf.get_name() != name {
            continue;
        }
        for m in mf.get_metric() {
            let ok = match label {
                None => true,
                Some((k, v)) => m.get_label().iter().any(|l| l.get_name() == k && l.get_value() == v),
            };
            if ok {
                total += m.get_counter().get_value() + m.get_gauge().get_value();
            }
        }
    }
    total
}

#[derive(Default, Clone)]
struct ClientState {
    last_offered: Option<Ipv4Addr>,
    last_acked: Option<Ipv4Addr>,
    last_server: Option<Ipv4Addr>,
}

#[derive(Clone, Debug)]
struct Holder {
    client: Vec<u8>,
    expiry: i64,
}

struct Sent {
    step: usize,
    spec: MsgSpec,
    msg: DhcpMsg,
    identity: Vec<u8>,
    requested: Option<Ipv4Addr>,
    sid: Option<Ipv4Addr>,
}

pub struct HttpReply {
    pub status: u16,
    pub body: Vec<u8>,
}

pub async fn http_get(k: &Arc<Kernel>, from: Addr, to: Addr, path: &str) -> Result<HttpReply, String> {
    let mut s = k.actor_connect(from, to).map_err(|e| format!("connect: errno {}", e))?;
    let req = format!("GET {} HTTP/1.1\r\nHost: erbium\r\nConnection: close\r\n\r\n", path);
    s.write_all(req.as_bytes()).await.map_err(|e| format!("write: errno {}", e))?;
    let mut data = vec![];
    match tokio::time::timeout(Duration::from_secs(30), s.read_to_end(&mut data)).await {
        Err(_) => return Err(format!("no complete response within 30 s ({} octets so far)", data.len())),
        Ok(Err(e)) if data.is_empty() => return Err(format!("read: errno {}", e)),
        _ => (),
    }
    let split = data.windows(4).position(|w| w == b"\r\n\r\n").ok_or("no header terminator")?;
    let head = String::from_utf8_lossy(&data[..split]).to_string();
    let status: u16 = head.split_whitespace().nth(1).and_then(|x| x.parse().ok()).ok_or("no status code")?;
    let mut body = data[split + 4..].to_vec();
    if head.to_ascii_lowercase().contains("transfer-encoding: chunked") {
        let mut out = vec![];
        let mut i = 0;
        loop {
            let Some(e) = body[i..].windows(2).position(|w| w == b"\r\n") else { break };
            let n = usize::from_str_radix(String::from_utf8_lossy(&body[i..i + e]).trim(), 16).unwrap_or(0);
            i += e + 2;
            if n == 0 || i + n > body.len() {
                break;
            }
            out.extend_from_slice(&body[i..i + n]);
            i += n + 2;
        }
        body = out;
    }
    Ok(HttpReply { status, body })
}

fn client_id_hex(id: &[u8]) -> String {
    id.iter().map(|b| format!("{:02x}", b)).collect::<Vec<_>>().join(":")
}

/// Decode an RFC 3397 search list (compression pointers allowed).
fn decode_search_list(v: &[u8]) -> Result<Vec<String>, String> {
    let mut names = vec![];
    let mut i = 0;
    while i < v.len() {
        let mut labels = vec![];
        let mut p = i;
        let mut jumped = false;
        let mut hops = 0;
        loop {
            if p >= v.len() {
                return Err("name runs past the option".into());
            }
            let l = v[p] as usize;
            if l == 0 {
                if !jumped {
                    i = p + 1;
                }
                break;
            } else if l & 0xc0 == 0xc0 {
                if p + 1 >= v.len() {
                    return Err("truncated pointer".into());
                }
                if !jumped {
                    i = p + 2;
                }
                jumped = true;
                hops += 1;
                if hops > 16 {
                    return Err("pointer loop".into());
                }
                p = ((l & 0x3f) << 8) | v[p + 1] as usize;
            } else {
                if p + 1 + l > v.len() {
                    return Err("label runs past the option".into());
                }
                labels.push(String::from_utf8_lossy(&v[p + 1..p + 1 + l]).to_string());
                p += 1 + l;
            }
        }
        names.push(labels.join("."));
    }
    Ok(names)
}

pub struct ExecOpts {
    pub trace: bool,
    /// property ids whose oracles are active (others are computed but not reported)
    pub only: Option<Vec<String>>,
}

pub async fn run_async(plan: &PlanA, opts: &ExecOpts) -> RunResult {
    let mut res = RunResult { seed: plan.seed, world: "A".into(), shape: plan.shape.clone(), ..Default::default() };
    let ifaces = ifaces_of(&plan.lans);
    let knobs = Knobs { yield_p: plan.yield_p, spurious_p: plan.spurious_p, eintr_p: plan.eintr_p, send_err_p: plan.send_err_p, ..Default::default() };
    let kernel = Kernel::new(plan.seed, ifaces.clone(), None, knobs, opts.trace);
    erbium_net::sim::install(Some(std::rc::Rc::new(KHandle(kernel.clone()))));
    vfs::with_disk(|d| {
        *d = vfs::DiskState::default();
    });
    crate::interpose::arm(plan.seed, plan.wall_base, 16);
    let t0 = tokio::time::Instant::now();
    let host_ips: BTreeSet<Ipv4Addr> = plan.lans.iter().map(|l| l.server_ip).collect();

    if !plan.prefill.is_empty() {
        let mut sql = String::from(
            "CREATE TABLE schema_version (key TEXT NOT NULL, version INTEGER NOT NULL, PRIMARY KEY (key));
             INSERT INTO schema_version VALUES ('pool', 1);
             CREATE TABLE leases (address TEXT NOT NULL, chaddr BLOB, clientid BLOB, start INTEGER NOT NULL, expiry INTEGER NOT NULL, options BLOB, PRIMARY KEY (address));
             BEGIN;",
        );
        for (a, c, s, e) in &plan.prefill {
            sql.push_str(&format!("INSERT INTO leases (address, clientid, start, expiry) VALUES ('{}', x'{}', {}, {});", a, hex(c), s, e));
        }
        sql.push_str("COMMIT;");
        if let Err(e) = vfs::harness_sql(&sql) {
            res.harness_error = Some(format!("prefill failed: {}", e));
            return res;
        }
    }

    let mut image_rows: Option<Vec<Row>> = None;
    if let Some(img) = &plan.image {
        let (rows, sql) = match img {
            Image::V0 { rows, version_table, version_row } => {
                let mut sql = String::from("CREATE TABLE leases (address TEXT NOT NULL, chaddr BLOB, clientid BLOB, start INTEGER NOT NULL, expiry INTEGER NOT NULL, PRIMARY KEY (address));");
                if *version_table {
                    sql.push_str("CREATE TABLE schema_version (key TEXT NOT NULL, version INTEGER NOT NULL, PRIMARY KEY (key));");
                    if *version_row {
                        sql.push_str("INSERT INTO schema_version VALUES ('pool', 0);");
                    }
                }
                (rows, sql)
            }
            Image::Current { rows } => (
                rows,
                String::from(
                    "CREATE TABLE schema_version (key TEXT NOT NULL, version INTEGER NOT NULL, PRIMARY KEY (key)); INSERT INTO schema_version VALUES ('pool', 1);
                     CREATE TABLE leases (address TEXT NOT NULL, chaddr BLOB, clientid BLOB, start INTEGER NOT NULL, expiry INTEGER NOT NULL, options BLOB, PRIMARY KEY (address));",
                ),
            ),
            Image::Newer { version, rows } => (
                rows,
                format!(
                    "CREATE TABLE schema_version (key TEXT NOT NULL, version INTEGER NOT NULL, PRIMARY KEY (key)); INSERT INTO schema_version VALUES ('pool', {});
                     CREATE TABLE leases (address TEXT NOT NULL, chaddr BLOB, clientid BLOB, start INTEGER NOT NULL, expiry INTEGER NOT NULL, options BLOB, extra BLOB, PRIMARY KEY (address));",
                    version
                ),
            ),
        };
        let mut sql = sql;
        for r in rows {
            sql.push_str(&format!(
                "INSERT INTO leases (address, clientid, start, expiry) VALUES ('{}', {}, {}, {});",
                r.address,
                r.clientid.as_ref().map(|c| format!("x'{}'", hex(c))).unwrap_or("NULL".into()),
                r.start,
                r.expiry
            ));
        }
        if let Err(e) = vfs::harness_sql(&sql) {
            res.harness_error = Some(format!("image setup failed: {}", e));
            return res;
        }
        let mut want: Vec<Row> = rows.iter().map(|r| Row { address: r.address.clone(), clientid: r.clientid.clone(), start: r.start, expiry: r.expiry, options: None }).collect();
        want.sort();
        image_rows = Some(want);
        res.probe(match img {
            Image::V0 { version_table: false, .. } => "C18.image_v0_without_version_table",
            Image::V0 { version_row: false, .. } => "C18.image_v0_without_version_row",
            Image::V0 { .. } => "C18.image_v0",
            Image::Newer { .. } => "C18.image_newer_schema",
            Image::Current { .. } => "C18.image_current_schema_reference",
        });
    }
    if let Some(k) = plan.crash_at_total {
        vfs::with_disk(|d| d.crash_at = Some(k));
    }
    let files_before = vfs::with_disk(|d| d.files.clone());
    let mut nontrivial_events = 0u64;
    let mut cfg_idx = 0usize;
    let newer = matches!(plan.image, Some(Image::Newer { .. }));
    let mut server = match boot(&ifaces, &plan.configs[0].yaml()).await {
        Ok(s) => {
            if newer {
                res.violate("C18", "C18.newer_schema_not_refused", format!("a database of schema {:?} was opened", plan.image), 0);
            }
            s
        }
        Err(e) => {
            if vfs::with_disk(|d| d.dead) {
                /* killed during first boot (schema creation or upgrade) */
                *res.faults.entry("process_kill".into()).or_insert(0) += 1;
                let names = vfs::with_disk(|d| d.call_names.clone());
                res.probe("C18.crash_during_boot");
                kernel.kill_process();
                let image = vfs::with_disk(|d| d.crash_image.clone());
                vfs::with_disk(|d| d.reboot(image));
                match boot(&ifaces, &plan.configs[0].yaml()).await {
                    Ok(s) => {
                        nontrivial_events += 1;
                        s
                    }
                    Err(e2) => {
                        res.violate(
                            "C18",
                            "C18.reopen_failed_after_kill_during_boot",
                            format!("killed before disk call #{} ({:?}, after {:?}) of the first boot; the store can never be opened again: {}", names.len(), names.last(), names.iter().rev().skip(1).take(3).collect::<Vec<_>>(), e2),
                            0,
                        );
                        erbium_net::sim::install(None);
                        return finish(res, &kernel, t0, 1);
                    }
                }
            } else if newer {
                let files_after = vfs::with_disk(|d| d.files.clone());
                if files_after != files_before {
                    res.violate("C18", "C18.newer_schema_modified", format!("a database of a newer schema was refused ({}) but its files changed", e), 0);
                }
                res.probe("C18.newer_schema_refused");
                erbium_net::sim::install(None);
                return finish(res, &kernel, t0, 1);
            } else if matches!(plan.image, Some(Image::V0 { .. }) | Some(Image::Current { .. })) && e.contains("DHCP Pool Error") && !vfs::with_disk(|d| d.faults_fired > 0) {
                /* a lease database of a schema erbium knows, written through SQLite itself, with
                 * no disk fault: erbium's pool refuses to open it */
                res.violate("C18", "C18.valid_database_refused_at_boot", format!("a {} lease database could not be opened: {}", if matches!(plan.image, Some(Image::V0 { .. })) { "pre-versioning" } else { "current-schema" }, e), 0);
                erbium_net::sim::install(None);
                return finish(res, &kernel, t0, 1);
            } else {
                res.harness_error = Some(format!("first boot failed: {} -- vfs calls {:?} -- config:\n{}", e, vfs::with_disk(|d| (d.call_names.clone(), d.files.keys().cloned().collect::<Vec<_>>())), plan.configs[0].yaml()));
                erbium_net::sim::install(None);
                return res;
            }
        }
    };
    if let Some(want) = &image_rows {
        if !newer {
            match vfs::read_rows() {
                Ok((rows, ver)) => {
                    let mut got: Vec<Row> = rows.iter().map(|r| Row { options: None, ..r.clone() }).collect();
                    got.sort();
                    nontrivial_events += 1;
                    if &got != want {
                        res.violate("C18", "C18.rows_not_preserved_by_upgrade", format!("image rows {:?} after opening {:?}", want, got), 0);
                    }
                    if ver != Some(1) {
                        res.violate("C18", "C18.upgrade_left_wrong_version", format!("schema_version is {:?} after opening an old image", ver), 0);
                    }
                }
                Err(e) => res.violate("C18", "C18.store_unreadable_after_upgrade", e, 0),
            }
        }
    }
    tokio::time::sleep(Duration::from_millis(1)).await;

    let mut cstate: Vec<ClientState> = vec![ClientState::default(); plan.clients.len()];
    let mut holders: HashMap<Ipv4Addr, Holder> = HashMap::new();
    /* a kill or a disk fault may cost the store a lease whose reply never left */
    let mut store_may_have_lost = false;
    let mut ids_used: BTreeSet<Ipv4Addr> = BTreeSet::new();
    let mut handed: BTreeSet<u32> = BTreeSet::new();
    let mut refused_tail = 0usize; /* consecutive unanswered DISCOVERs at the end (drain shape) */

    /* group steps by instant */
    let mut i = 0;
    while i < plan.steps.len() {
        let at = plan.steps[i].at_ms;
        let mut j = i;
        while j < plan.steps.len() && plan.steps[j].at_ms == at {
            j += 1;
        }
        let group: Vec<(usize, &Step)> = (i..j).map(|x| (x, &plan.steps[x])).collect();
        i = j;
        tokio::time::sleep_until(t0 + Duration::from_millis(at)).await;

        /* control steps first, in plan order */
        let mut dhcp_steps: Vec<(usize, &MsgSpec)> = vec![];
        let mut raw_steps: Vec<(usize, usize, &Vec<u8>)> = vec![];
        let mut http_steps: Vec<(usize, &String, &HttpVia, u8, u32)> = vec![];
        let mut acl_steps: Vec<(usize, &String, &String, &String)> = vec![];
        for (si, st) in &group {
            match &st.kind {
                StepKind::Dhcp(m) => dhcp_steps.push((*si, m)),
                StepKind::Raw { lan, data } => raw_steps.push((*si, *lan, data)),
                StepKind::Http { path, via, aim, read_fault, .. } => http_steps.push((*si, path, via, *aim, *read_fault)),
                StepKind::AclHttp { path, from, to } => acl_steps.push((*si, path, from, to)),
                StepKind::ClockJump(d) => {
                    crate::interpose::add_skew_secs(*d);
                    res.probe(if *d < 0 { "clock.backward_step" } else { "clock.forward_jump" });
                    *res.faults.entry("clock_jump".into()).or_insert(0) += 1;
                }
                StepKind::CrashAtCall(k) => {
                    vfs::with_disk(|d| d.crash_at = Some(d.calls + k));
                }
                StepKind::DiskFault { k, full } => {
                    vfs::with_disk(|d| d.fault_at = Some((d.calls + k, if *full { vfs::DiskFault::Full } else { vfs::DiskFault::IoErr })));
                }
                StepKind::SwapConfig { cfg } => {
                    match erbium::config::load_config_from_string_verif(&plan.configs[*cfg].yaml()) {
                        Ok(newc) => {
                            let newc = match Arc::try_unwrap(newc) {
                                Ok(l) => l.into_inner(),
                                Err(_) => unreachable!(),
                            };
                            *server.conf.write().await = newc;
                            cfg_idx = *cfg;
                            res.probe("config.swapped_live");
                        }
                        Err(e) => res.harness_error = Some(format!("config rejected: {}", e)),
                    }
                }
                StepKind::Restart { cfg } => {
                    server.abort();
                    kernel.kill_process();
                    vfs::with_disk(|d| d.reboot(None));
                    let before = vfs::read_rows();
                    match boot(&ifaces, &plan.configs[*cfg].yaml()).await {
                        Ok(s) => server = s,
                        Err(e) => {
                            res.violate("C18", "C18.reopen_failed_after_clean_restart", format!("boot after clean restart failed: {}", e), *si);
                            erbium_net::sim::install(None);
                            return finish(res, &kernel, t0, nontrivial_events);
                        }
                    }
                    tokio::time::sleep(Duration::from_millis(1)).await;
                    let after = vfs::read_rows();
                    if let (Ok(b), Ok(a)) = (&before, &after) {
                        if b.0 != a.0 {
                            res.violate("C18", "C18.rows_changed_by_reopen", format!("rows before reopen {:?} after {:?}", b.0, a.0), *si);
                        }
                    }
                    cfg_idx = *cfg;
                    ids_used.clear();
                    res.probe("restart.clean");
                    *res.faults.entry("restart".into()).or_insert(0) += 1;
                }
            }
        }

        let conf = &plan.configs[cfg_idx];
        let sequential = dhcp_steps.len() + raw_steps.len() == 1;
        let light = plan.shape == "drain-large";
        let before = if (!dhcp_steps.is_empty() || !raw_steps.is_empty()) && !light { vfs::read_rows().ok() } else { None };
        let no_addr_before = counter("dhcp_errors", Some(("reason", "NO_ADDRESS")));
        let now = crate::interpose::wall_now_secs();
        let _ = kernel.take_out();
        crate::common::take_panics();

        /* inject this instant's messages */
        let mut sent: Vec<Sent> = vec![];
        for (si, m) in &dhcp_steps {
            let c = &plan.clients[m.client];
            let cs = &cstate[m.client];
            let lan = &plan.lans[m.lan];
            let resolve = |r: &AddrRef| match r {
                AddrRef::None => None,
                AddrRef::Fixed(a) => Some(*a),
                AddrRef::LastOffered => cs.last_offered,
                AddrRef::LastAcked => cs.last_acked,
                AddrRef::AckedBy(o) => cstate.get(*o).and_then(|x| x.last_acked),
            };
            let mut chaddr16 = c.chaddr.clone();
            chaddr16.resize(16, 0);
            let mut msg = DhcpMsg::request(m.xid, &chaddr16, c.chaddr.len() as u8);
            msg.flags = m.flags;
            let ciaddr = resolve(&m.ciaddr);
            msg.ciaddr = ciaddr.unwrap_or(Ipv4Addr::UNSPECIFIED);
            if let Some(g) = m.giaddr {
                msg.giaddr = g;
                msg.hops = 1;
            }
            if let Some(t) = m.mtype {
                msg.options.push((53, vec![t]));
            }
            if m.with_client_id {
                if let Some(id) = &c.client_id {
                    msg.options.push((61, id.clone()));
                }
            }
            let requested_opt = resolve(&m.requested);
            if let Some(a) = requested_opt {
                msg.options.push((50, a.octets().to_vec()));
            }
            let sid = m.server_id.as_ref().and_then(|s| match s {
                SidRef::FromLastReply => cs.last_server,
                SidRef::ThisIface => Some(lan.server_ip),
                SidRef::OtherIface => plan.lans.iter().find(|l| l.ifidx != lan.ifidx).map(|l| l.server_ip),
                SidRef::Foreign(a) => Some(*a),
            });
            if let Some(s) = sid {
                msg.options.push((54, s.octets().to_vec()));
            }
            if m.with_hostname {
                if let Some(h) = &c.hostname {
                    msg.options.push((12, h.clone()));
                }
            }
            if !m.param_list.is_empty() {
                msg.options.push((55, m.param_list.clone()));
            }
            for (code, v) in &m.extra {
                msg.options.push((*code, v.clone()));
            }
            if m.split_opts {
                let mut split = vec![];
                for (c, v) in msg.options.drain(..) {
                    if v.len() >= 2 && c != 53 {
                        let h = v.len() / 2;
                        split.push((c, v[..h].to_vec()));
                        split.push((c, v[h..].to_vec()));
                    } else {
                        split.push((c, v));
                    }
                }
                msg.options = split;
                res.probe("C12.request_with_split_options");
            }
            let bytes = msg.encode();
            own_codec_roundtrip(&mut res, &bytes, *si);
            let src: SocketAddr = if let Some(g) = m.giaddr {
                SocketAddr::new(IpAddr::V4(g), 67)
            } else {
                SocketAddr::new(IpAddr::V4(msg.ciaddr), 68)
            };
            let dst = SocketAddr::new(IpAddr::V4(if m.giaddr.is_some() { lan.server_ip } else { Ipv4Addr::BROADCAST }), 67);
            kernel.inject_udp(dst, src, lan.ifidx, &bytes);
            /* the address the message asks for, as the statement defines it */
            let requested = match m.mtype {
                Some(3) => ciaddr.or(requested_opt),
                _ => requested_opt,
            };
            sent.push(Sent { step: *si, spec: (*m).clone(), msg, identity: c.identity(m.with_client_id), requested, sid });
        }
        for (si, lan, data) in &raw_steps {
            let l = &plan.lans[*lan];
            own_codec_roundtrip(&mut res, data, *si);
            kernel.inject_udp(SocketAddr::new(IpAddr::V4(Ipv4Addr::BROADCAST), 67), SocketAddr::new(IpAddr::V4(Ipv4Addr::UNSPECIFIED), 68), l.ifidx, data);
            *res.faults.entry("hostile_datagram".into()).or_insert(0) += 1;
        }

        /* let erbium run until it is idle again */
        tokio::time::sleep(Duration::from_millis(1)).await;

        let outs = kernel.take_out();
        let crashed = vfs::with_disk(|d| d.dead);
        for (loc, msg) in crate::common::take_panics() {
            let injected_disk_error = vfs::with_disk(|d| d.faults_fired > 0 || d.dead);
            if injected_disk_error && loc.contains("pool.rs") {
                res.observations.push(format!("panic after injected disk fault at {}: {}", loc, msg));
            } else {
                res.violate("C05", &format!("C05.panic@{}", loc), format!("panic while handling step {}: {}", group[0].0, msg), group[0].0);
            }
        }

        /* decode what came out */
        struct Reply {
            frame: codec_dhcp::Frame,
            msg: Option<DhcpMsg>,
            decode_err: Option<String>,
            ifidx: u32,
        }
        let mut replies: Vec<Reply> = vec![];
        let mut refused_frames = 0;
        for o in &outs {
            if let OutKind::Frame { ifidx, data } = &o.kind {
                if o.injected {
                    /* a failed system call: the reply is lost */
                    *res.faults.entry("sendmsg_error".into()).or_insert(0) += 1;
                    refused_frames += 1;
                    continue;
                }
                if let Some(e) = o.errno {
                    /* a reply that does not fit the link MTU (long configured options on a
                     * small-MTU interface) is refused by the kernel; the statement of C12 does
                     * not cover that, so it is an observation and the message counts as lost */
                    res.observations.push(format!("frame refused by the kernel: errno {}", e));
                    refused_frames += 1;
                    if e != libc::EMSGSIZE {
                        res.violate("C12", "C12.frame_refused_by_kernel", format!("AF_PACKET send of {} octets on if#{} failed with errno {}", data.len(), ifidx, e), group[0].0);
                    }
                    continue;
                }
                match codec_dhcp::decode_frame(data) {
                    Err(e) => res.violate("C12", "C12.invalid_frame", format!("{} -- frame {}", e, hex(data)), group[0].0),
                    Ok(frame) => {
                        let (msg, decode_err) = match codec_dhcp::decode_lenient(&frame.payload) {
                            Ok((m, e)) => (Some(m), e),
                            Err(e) => (None, Some(e)),
                        };
                        replies.push(Reply { frame, msg, decode_err, ifidx: *ifidx });
                    }
                }
            }
        }
        let after = if before.is_some() && !crashed { vfs::read_rows().ok() } else { None };
        let after_rows: BTreeMap<String, Row> = after.as_ref().map(|a| a.0.iter().map(|r| (r.address.clone(), r.clone())).collect()).unwrap_or_default();
        let before_rows: BTreeMap<String, Row> = before.as_ref().map(|a| a.0.iter().map(|r| (r.address.clone(), r.clone())).collect()).unwrap_or_default();
        let disk_fault_now = vfs::with_disk(|d| {
            let f = d.faults_fired;
            d.faults_fired = 0;
            f > 0
        });
        if disk_fault_now {
            *res.faults.entry("disk_error".into()).or_insert(0) += 1;
        }
        if disk_fault_now || crashed {
            store_may_have_lost = true;
        }

        /* who had been told what before this instant's replies */
        let holders_before = holders.clone();
        /* "the lease recorded for it": when the server rewrites the record of a holder (a
         * renewal by the same client identity, possibly one whose reply could not be framed),
         * the current record is what counts */
        if after.is_some() {
            for (a, h) in holders.iter_mut() {
                if let Some(row) = after_rows.get(&a.to_string()) {
                    if row.clientid.as_deref() == Some(&h.client[..]) && row.expiry != h.expiry {
                        h.expiry = row.expiry;
                    }
                }
            }
        }
        for s in &sent {
            let lan = &plan.lans[s.spec.lan];
            let client = &plan.clients[s.spec.client];
            let mine: Vec<&Reply> = replies.iter().filter(|r| match &r.msg {
                Some(m) => m.xid == s.msg.xid,
                None => r.frame.payload.len() >= 8 && r.frame.payload[4..8] == s.msg.xid.to_be_bytes(),
            }).collect();
            let replied = !mine.is_empty();
            let mtype = s.spec.mtype;
            if mtype == Some(1) {
                refused_tail = if replied { 0 } else { refused_tail + 1 };
            }
            {
                let mut d: Vec<String> = mine.iter().map(|r| match &r.msg {
                    Some(m) => format!("type={:?} yiaddr={} lease={:?} sid={:?}", m.msg_type(), m.yiaddr, m.opt_u32(51), m.opt_ip(54)),
                    None => "undecodable".into(),
                }).collect();
                d.sort();
                res.digest.push(format!("xid {:#x}: {}", s.msg.xid, if d.is_empty() { "no reply".to_string() } else { d.join(" | ") }));
            }
            if s.spec.must_answer {
                res.probe("C05.liveness_probe_after_hostile_input");
                if !replied && !crashed && !disk_fault_now && refused_frames == 0 {
                    res.violate("C05", "C05.dhcp_service_stopped_answering", format!("a well-formed DISCOVER from a client with a reservation got no reply after the hostile datagram before it (step {})", s.step), s.step);
                }
            }
            /* the request's options as the server concatenates them (RFC 3396) */
            let mut req_opts = crate::wa_plan::ReqOpts::new();
            for (c, v) in &s.msg.options {
                req_opts.entry(*c).or_default().extend_from_slice(v);
            }
            if conf.policies.iter().any(|p| p.uses_match_other()) {
                res.probe("C02.policy_with_match_option");
            }
            let pool = conf.allowed_for(&client.chaddr, &req_opts, lan);
            if replied && pool != conf.allowed(&client.chaddr, lan) {
                res.probe("C02.request_options_select_the_pool");
            }

            // ---- C13: who may be answered, and what a non-answer may touch
            if replied {
                if !matches!(mtype, Some(1) | Some(3)) {
                    res.violate("C13", "C13.reply_to_other_message_type", format!("message type {:?} from {} got a reply", mtype, hex(&client.chaddr)), s.step);
                }
                if let Some(sid) = s.sid {
                    if mtype == Some(3) && !host_ips.contains(&sid) {
                        res.violate("C13", "C13.reply_to_request_for_other_server", format!("REQUEST naming server {} was answered (this host: {:?})", sid, host_ips), s.step);
                    }
                }
                if pool.is_none() && matches!(mtype, Some(1) | Some(3)) {
                    res.violate("C13", "C13.reply_without_configured_pool", format!("client {} on {} matches no configured pool but was answered", hex(&client.chaddr), lan.name), s.step);
                }
            }
            if let Some(sid) = s.sid {
                if !host_ips.contains(&sid) {
                    res.probe("C13.foreign_server_id");
                }
            }
            let meant_for_us = pool.is_some() && (mtype == Some(1) || (mtype == Some(3) && s.sid.map(|x| host_ips.contains(&x)).unwrap_or(true)));
            /* (a reply that a failing sendmsg swallowed was produced all the same) */
            if sequential && !replied && !crashed && !disk_fault_now && refused_frames == 0 {
                if meant_for_us {
                    res.probe("C13.message_meant_for_this_server_got_no_reply");
                }
                if let (Some(b), Some(a)) = (&before, &after) {
                    if b.0 != a.0 {
                        let diff: Vec<&Row> = a.0.iter().filter(|r| !b.0.contains(r)).collect();
                        res.violate(
                            "C13",
                            &format!("C13.state_changed_without_reply.{}type{}", if meant_for_us { "meant_for_this_server." } else { "" }, mtype.map(|t| t.to_string()).unwrap_or("none".into())),
                            format!("message type {:?} (server-id {:?}) got no reply but the lease store changed: new/changed rows {:?}", mtype, s.sid, diff),
                            s.step,
                        );
                    }
                }
                if matches!(mtype, Some(4) | Some(7)) && s.requested.map(|a| before_rows.contains_key(&a.to_string())).unwrap_or(false) {
                    res.probe("C13.decline_or_release_for_held_address");
                }
            }

            for r in &mine {
                let Some(m) = &r.msg else {
                    res.violate("C12", "C12.payload_does_not_decode", format!("{} -- payload {}", r.decode_err.clone().unwrap_or_default(), hex(&r.frame.payload)), s.step);
                    continue;
                };
                let x = m.yiaddr;
                handed.insert(u32::from(x));
                let l51 = m.opt_u32(51);
                nontrivial_events += 1;
                /* an option longer than 255 octets (or any broken TLV) garbles everything
                 * after it; that is reported once, under C12, and the option-reading
                 * oracles of other properties stay away from such a payload */
                let long_tracer = (conf.captive_portal.as_ref().map(|c| c.len() > 255).unwrap_or(false) && s.spec.param_list.contains(&114))
                    || (conf.dns_search.iter().map(|d| d.len() + 2).sum::<usize>() > 255 && s.spec.param_list.contains(&119));
                let garbled = r.decode_err.is_some() || long_tracer;
                if let Some(e) = &r.decode_err {
                    res.violate("C12", "C12.payload_does_not_decode", format!("{} -- payload {}", e, hex(&r.frame.payload)), s.step);
                }

                // ---- C12: erbium's own decoder reads the reply back, and encoding what it read
                // and decoding that again changes nothing
                match erbium::dhcp::dhcppkt::parse(&r.frame.payload) {
                    Err(e) => {
                        res.violate("C12", "C12.own_decoder_rejects_own_reply", format!("{:?} -- payload {}", e, hex(&r.frame.payload)), s.step);
                    }
                    Ok(own) => {
                        let again = own.serialise();
                        match erbium::dhcp::dhcppkt::parse(&again) {
                            Ok(own2) if own2 == own => res.probe("C12.reply_survives_own_decode_encode_decode"),
                            Ok(_) => res.violate("C12", "C12.reply_changed_by_decode_encode_decode", format!("payload {} re-encoded as {}", hex(&r.frame.payload), hex(&again)), s.step),
                            Err(e) => res.violate("C12", "C12.reply_changed_by_decode_encode_decode", format!("payload {} re-encoded as {} which does not decode: {:?}", hex(&r.frame.payload), hex(&again), e), s.step),
                        }
                    }
                }
                // ---- C12: the frame and the payload as a conforming client reads them
                if r.ifidx != lan.ifidx {
                    res.violate("C12", "C12.reply_on_wrong_interface", format!("request arrived on if#{} reply left on if#{}", lan.ifidx, r.ifidx), s.step);
                }
                if r.frame.src_ip != lan.server_ip || r.frame.src_port != 67 {
                    res.violate("C12", "C12.wrong_source", format!("reply sourced from {}:{} expected {}:67", r.frame.src_ip, r.frame.src_port, lan.server_ip), s.step);
                }
                if client.chaddr.len() >= 6 && r.frame.dst_mac[..] != client.chaddr[..6] {
                    res.violate("C12", "C12.wrong_destination_mac", format!("dst mac {} chaddr {}", hex(&r.frame.dst_mac), hex(&client.chaddr)), s.step);
                }
                let want_bcast = s.msg.flags & 0x8000 != 0;
                let want_dst = if want_bcast { Ipv4Addr::BROADCAST } else { x };
                if r.frame.dst_ip != want_dst {
                    res.violate(
                        "C12",
                        if want_bcast { "C12.broadcast_bit_ignored" } else { "C12.broadcast_without_broadcast_bit" },
                        format!("request flags {:#06x}: reply sent to {} expected {}", s.msg.flags, r.frame.dst_ip, want_dst),
                        s.step,
                    );
                }
                if s.msg.flags & 0x8000 != 0 {
                    res.probe("C12.broadcast_bit_set");
                } else if s.msg.flags != 0 {
                    res.probe("C12.other_flag_bits_set");
                }
                let want_port = if s.spec.giaddr.is_some() { 67 } else { 68 };
                if r.frame.dst_port != want_port {
                    res.violate("C12", "C12.wrong_destination_port", format!("dst port {} expected {}", r.frame.dst_port, want_port), s.step);
                }
                if m.op != 2 {
                    res.violate("C12", "C12.not_bootreply", format!("op {}", m.op), s.step);
                }
                let asked = |code: u8| s.spec.param_list.contains(&code);
                if let Some(cp) = &conf.captive_portal {
                    if asked(114) && (!garbled || cp.len() > 255) {
                        res.probe(if cp.len() > 255 { "C12.tracer_option_over_255" } else { "C12.tracer_option" });
                        match m.opt(114) {
                            Some(v) if v == cp.as_bytes() => (),
                            other => res.violate(
                                "C12",
                                if cp.len() > 255 { "C12.long_option_mangled" } else { "C12.option_value_mangled" },
                                format!("captive-portal configured as {} octets, client decodes {:?} octets", cp.len(), other.map(|v| v.len())),
                                s.step,
                            ),
                        }
                    }
                }
                if !conf.dns_search.is_empty() && asked(119) && (!garbled || conf.dns_search.iter().map(|d| d.len() + 2).sum::<usize>() > 255) {
                    let total: usize = conf.dns_search.iter().map(|d| d.len() + 2).sum();
                    res.probe(if total > 255 { "C12.tracer_option_over_255" } else { "C12.tracer_option" });
                    match m.opt(119).map(|v| decode_search_list(&v)) {
                        Some(Ok(names)) if names == conf.dns_search => (),
                        other => res.violate(
                            "C12",
                            if total > 255 { "C12.long_option_mangled" } else { "C12.option_value_mangled" },
                            format!("dns-search configured as {:?} ({} octets), client decodes {:?}", conf.dns_search, total, other),
                            s.step,
                        ),
                    }
                }

                // ---- C13: what every reply must echo
                if m.xid != s.msg.xid || m.chaddr != s.msg.chaddr || m.giaddr != s.msg.giaddr || m.flags != s.msg.flags {
                    res.violate(
                        "C13",
                        "C13.reply_does_not_echo_request",
                        format!("xid {:#x}/{:#x} chaddr {}/{} giaddr {}/{} flags {:#x}/{:#x}", m.xid, s.msg.xid, hex(&m.chaddr), hex(&s.msg.chaddr), m.giaddr, s.msg.giaddr, m.flags, s.msg.flags),
                        s.step,
                    );
                }
                match m.opt_ip(54) {
                    _ if garbled => (),
                    Some(id) if host_ips.contains(&id) => {
                        ids_used.insert(id);
                        cstate[s.spec.client].last_server = Some(id);
                    }
                    other => res.violate("C13", "C13.server_identifier_not_this_server", format!("option 54 = {:?}, this host is {:?}", other, host_ips), s.step),
                }
                if sequential && !crashed {
                    if let (Some(b), Some(a)) = (&before, &after) {
                        let touched: Vec<&Row> = a.0.iter().filter(|r| !b.0.contains(r)).chain(b.0.iter().filter(|r| !a.0.iter().any(|q| q.address == r.address))).collect();
                        if touched.iter().any(|r| r.address != x.to_string()) {
                            res.violate("C13", "C13.reply_touched_other_rows", format!("reply assigned {} but rows {:?} changed", x, touched), s.step);
                        }
                    }
                }

                // ---- C02: the address belongs to the documented set
                if conf.policies.iter().any(|p| p.depth() >= 3) {
                    res.probe("C02.nested_policy_tree");
                }
                if let Some(want) = s.msg.opt_ip(50) {
                    if want != x && conf.policies.iter().any(|p| p.reserves(want)) {
                        res.probe("C02.request_names_reserved_address");
                    }
                }
                match &pool {
                    Some(p) if p.contains(&u32::from(x)) => (),
                    _ => {
                        let why = if u32::from(x) == lan.network() {
                            "network_address"
                        } else if u32::from(x) == lan.broadcast() {
                            "broadcast_address"
                        } else if x == lan.server_ip {
                            if conf.allowed_src(&client.chaddr, &req_opts, lan).1 { "server_own_address.from_policy_pool" } else { "server_own_address.from_addresses" }
                        } else if conf.policies.iter().any(|p| format!("{:?}", p).contains(&format!("{}", x))) {
                            "reserved_for_someone_else"
                        } else {
                            "outside_configured_set"
                        };
                        res.violate("C02", &format!("C02.leased_{}", why), format!("client {} on {} ({}/{}) was given {}; config:\n{}", hex(&client.chaddr), lan.name, lan.server_ip, lan.plen, x, conf.yaml()), s.step);
                    }
                }
                if let Some(p) = &pool {
                    if p.len() == 1 && conf.policies.iter().any(|pp| format!("{:?}", pp).contains(&format!("match_chaddr: Some({:?})", client.chaddr))) {
                        res.probe("C02.reserved_host_served");
                    }
                }

                // ---- C01: nobody else holds it
                if let Some(h) = holders.get(&x) {
                    if h.client != s.identity {
                        if h.expiry > now {
                            res.violate(
                                "C01",
                                "C01.address_leased_to_two_clients",
                                format!("{} was given to client {} until {} and at {} (wall clock) to client {}", x, hex(&h.client), h.expiry, now, hex(&s.identity)),
                                s.step,
                            );
                        } else {
                            res.probe("C01.expired_lease_reissued_to_other");
                        }
                    }
                }
                let row = after_rows.get(&x.to_string());
                let row_ok = row.map(|r| r.clientid.as_deref() == Some(&s.identity[..])).unwrap_or(false);
                let expiry = if row_ok { row.unwrap().expiry } else { now + l51.unwrap_or(300) as i64 };
                holders.insert(x, Holder { client: s.identity.clone(), expiry });

                // ---- C10: lease time bounds and the server's own record
                let is_offer_or_ack = matches!(m.msg_type(), Some(2) | Some(5));
                if is_offer_or_ack && !garbled {
                    match l51 {
                        None => res.violate(
                            "C10",
                            &format!("C10.no_lease_time_in_{}", if m.msg_type() == Some(2) { "offer" } else { "ack" }),
                            format!("reply type {:?} for {} carries no option 51", m.msg_type(), x),
                            s.step,
                        ),
                        Some(l) => {
                            /* the configured ceiling (apply-max-lease of the policy chain serving
                             * this client), 24 hours when none is configured; the floor is 5 minutes */
                            let configured = conf.max_lease(&client.chaddr, &req_opts, lan);
                            let max = configured.unwrap_or(86400);
                            if let Some(c) = configured {
                                res.probe("C10.max_lease_configured");
                                if l as u64 == c {
                                    res.probe("C10.clamped_at_configured_max");
                                }
                            }
                            if (l as u64) < 300 || l as u64 > max.max(300) {
                                let kind = if configured.is_some() && (300..=86400).contains(&l) { "C10.lease_time_exceeds_configured_max" } else { "C10.lease_time_out_of_bounds" };
                                res.violate("C10", kind, format!("advertised {} s; configured maximum {:?}, default 86400, minimum 300", l, configured), s.step);
                            }
                            if l == 300 {
                                res.probe("C10.clamped_at_min");
                            }
                            if l == 86400 {
                                res.probe("C10.clamped_at_max");
                            }
                        }
                    }
                    let same_client_msgs = sent.iter().filter(|q| q.identity == s.identity).count();
                    if !crashed && after.is_some() && same_client_msgs == 1 {
                        match row {
                            Some(r) if row_ok => {
                                if let Some(l) = l51 {
                                    if r.expiry - r.start != l as i64 {
                                        res.violate("C10", "C10.record_differs_from_advertised", format!("advertised {} s, recorded start {} expiry {}", l, r.start, r.expiry), s.step);
                                    }
                                    if r.expiry < now + l as i64 {
                                        res.violate("C10", "C10.record_expires_before_lease", format!("reply at {} advertised {} s but record expires at {}", now, l, r.expiry), s.step);
                                    }
                                } else if r.expiry < now + 300 {
                                    res.violate("C10", "C10.record_expires_before_lease", format!("reply at {} but record expires at {}", now, r.expiry), s.step);
                                }
                            }
                            _ => {
                                if !disk_fault_now {
                                    res.violate("C10", "C10.reply_without_record", format!("{} assigned to {} but the store has {:?}", x, hex(&s.identity), row), s.step);
                                }
                            }
                        }
                    }
                }

                match m.msg_type() {
                    Some(2) => cstate[s.spec.client].last_offered = Some(x),
                    Some(5) => cstate[s.spec.client].last_acked = Some(x),
                    _ => (),
                }
            }

            // ---- C09: a client keeps its address; refusal only on exhaustion
            if sequential && !crashed && !disk_fault_now && matches!(mtype, Some(1) | Some(3)) {
                if let Some(p) = &pool {
                    let sid_ok = match s.sid {
                        None => true,
                        Some(sid) => mtype == Some(1) || ids_used.contains(&sid),
                    };
                    let held: BTreeSet<u32> = before_rows
                        .values()
                        .filter(|r| r.clientid.as_deref() == Some(&s.identity[..]) && r.expiry > now)
                        .filter_map(|r| r.address.parse::<Ipv4Addr>().ok().map(u32::from))
                        .filter(|a| p.contains(a))
                        .collect();
                    /* rule 3: leases expiring this very second may count either way */
                    let held_strict: BTreeSet<u32> = before_rows
                        .values()
                        .filter(|r| r.clientid.as_deref() == Some(&s.identity[..]) && r.expiry > now + 1)
                        .filter_map(|r| r.address.parse::<Ipv4Addr>().ok().map(u32::from))
                        .filter(|a| p.contains(a))
                        .collect();
                    /* the same from what the client was told on the wire: an address whose latest
                     * OFFER/ACK went to this client and has not run out.  Where the store has
                     * forgotten such a lease the rule above is blind, this one is not. */
                    let told: BTreeSet<u32> = holders_before.iter().filter(|(a, h)| h.client == s.identity && h.expiry > now + 1 && p.contains(&u32::from(**a))).map(|(a, _)| u32::from(*a)).collect();
                    if before.is_some() && held.is_empty() && !told.is_empty() && !store_may_have_lost && sid_ok && client.chaddr.len() >= 6 && refused_frames == 0 {
                        res.probe("C09.store_forgot_a_lease_the_client_was_told");
                        let y = mine.iter().filter_map(|r| r.msg.as_ref()).map(|m| u32::from(m.yiaddr)).next();
                        if let Some(y) = y {
                            if !told.contains(&y) && y != u32::from(lan.server_ip) {
                                res.violate("C09", "C09.lease_told_to_the_client_not_reused", format!("client {} was told it has {:?} (unexpired, in the pool it is served from) but was given {}; the store no longer has those rows", hex(&s.identity), told.iter().map(|a| Ipv4Addr::from(*a)).collect::<Vec<_>>(), Ipv4Addr::from(y)), s.step);
                            }
                        }
                    }
                    if !held_strict.is_empty() && sid_ok && client.chaddr.len() >= 6 && refused_frames == 0 {
                        let all_held: Vec<&Row> = before_rows.values().filter(|r| r.clientid.as_deref() == Some(&s.identity[..]) && r.expiry > now).collect();
                        if all_held.len() > 1 {
                            res.probe("C09.client_holds_several_leases");
                        }
                        let y = mine.iter().filter_map(|r| r.msg.as_ref()).map(|m| u32::from(m.yiaddr)).next();
                        match y {
                            None => res.violate(
                                "C09",
                                "C09.holder_not_served",
                                format!("client {} holds {:?} (unexpired, in pool) but its {} got no reply", hex(&s.identity), held.iter().map(|a| Ipv4Addr::from(*a)).collect::<Vec<_>>(), if mtype == Some(1) { "DISCOVER" } else { "REQUEST" }),
                                s.step,
                            ),
                            Some(y) if y == u32::from(lan.server_ip) => {
                                /* the server's own address, leased from a policy pool: that is
                                 * C02's known finding, not a second violation here */
                                res.probe("C09.server_own_address_reissued");
                            }
                            Some(y) => {
                                if !held.contains(&y) {
                                    res.violate(
                                        "C09",
                                        "C09.held_lease_not_reused",
                                        format!("client {} holds {:?} in its pool but was given {}; all its unexpired rows: {:?}", hex(&s.identity), held.iter().map(|a| Ipv4Addr::from(*a)).collect::<Vec<_>>(), Ipv4Addr::from(y), all_held),
                                        s.step,
                                    );
                                } else if let Some(rq) = s.requested {
                                    if held_strict.contains(&u32::from(rq)) && y != u32::from(rq) {
                                        res.violate("C09", "C09.named_held_address_not_given", format!("client asked for {} which it holds, got {}", rq, Ipv4Addr::from(y)), s.step);
                                    }
                                }
                            }
                        }
                    }
                    let no_addr_after = counter("dhcp_errors", Some(("reason", "NO_ADDRESS")));
                    if no_addr_after > no_addr_before {
                        res.probe("C09.refused_no_address");
                        let free: Vec<Ipv4Addr> = p
                            .iter()
                            .filter(|a| match before_rows.get(&Ipv4Addr::from(**a).to_string()) {
                                None => true,
                                Some(r) => r.clientid.as_deref() == Some(&s.identity[..]) || r.expiry < now,
                            })
                            .map(|a| Ipv4Addr::from(*a))
                            .collect();
                        if !free.is_empty() {
                            res.violate(
                                "C09",
                                "C09.refused_although_address_free",
                                format!("client {} was refused for lack of addresses but {:?} (of {} in its pool) are not held by anybody else", hex(&s.identity), &free[..free.len().min(4)], p.len()),
                                s.step,
                            );
                        }
                    }
                }
            }
        }

        // ---- HTTP steps (C20), sequential by construction
        for (si, path, via, aim, read_fault) in &http_steps {
            let (from, to) = match via {
                HttpVia::Tcp4 => (Addr::Inet("127.0.0.1:40000".parse().unwrap()), Addr::Inet("127.0.0.1:9968".parse().unwrap())),
                HttpVia::Tcp6 => (Addr::Inet("[::1]:40000".parse().unwrap()), Addr::Inet("[::1]:9968".parse().unwrap())),
                HttpVia::UnixPath => (Addr::Unix(UnixName::Path(b"/tmp/client.sock".to_vec())), Addr::Unix(UnixName::Path(b"/var/lib/erbium/control".to_vec()))),
                HttpVia::UnixAbstract => (Addr::Unix(UnixName::Abstract(b"client".to_vec())), Addr::Unix(UnixName::Abstract(b"erbium-abstract".to_vec()))),
                HttpVia::UnixUnnamed => (Addr::Unix(UnixName::Unnamed), Addr::Unix(UnixName::Path(b"/var/lib/erbium/control".to_vec()))),
            };
            let rows = vfs::read_rows().ok().map(|r| r.0).unwrap_or_default();
            if *aim > 0 && path.ends_with("metrics") {
                /* aim the scrape at the second before / of / after the next expiry */
                let now = crate::interpose::wall_now_secs();
                if let Some(next) = rows.iter().map(|r| r.expiry).filter(|e| *e > now).min() {
                    let target = next + *aim as i64 - 2;
                    if target > now && target - now <= 100_000 {
                        tokio::time::sleep(Duration::from_secs((target - now) as u64)).await;
                        res.probe(match *aim { 1 => "C20.scrape_one_second_before_an_expiry", 2 => "C20.scrape_in_the_second_of_an_expiry", _ => "C20.scrape_one_second_after_an_expiry" });
                    }
                }
            }
            let wall = crate::interpose::wall_now_secs();
            vfs::with_disk(|d| {
                d.read_fail_next = *read_fault;
                d.faults_fired = 0;
            });
            let reply = http_get(&kernel, from, to, path).await;
            let read_failed = vfs::with_disk(|d| {
                let f = d.faults_fired;
                d.faults_fired = 0;
                d.read_fail_next = 0;
                f > 0
            });
            if read_failed {
                *res.faults.entry("disk_read_error_while_serving_http".into()).or_insert(0) += 1;
            }
            let wall_after = crate::interpose::wall_now_secs();
            for (loc, msg) in crate::common::take_panics() {
                if loc.contains("addr/mod.rs") {
                    res.violate("C08", "C08.unix_peer_address_kills_api_listener", format!("accepting a unix-socket client ({:?}) panicked at {} ({}); the listener task is gone", via, loc, msg), *si);
                } else {
                    res.violate("C20", &format!("C20.panic_while_serving@{}", loc), format!("panic while serving {}: {}", path, msg), *si);
                }
            }
            match reply {
                Err(e) => res.observations.push(format!("http {} via {:?}: {}", path, via, e)),
                Ok(rep) if rep.status != 200 => res.observations.push(format!("http {} via {:?}: status {}", path, via, rep.status)),
                Ok(rep) => {
                    nontrivial_events += 1;
                    if read_failed {
                        /* the store could not be read: the request may fail; what it must not
                         * do is report success with something that is not the store */
                        res.probe("C20.http_200_although_the_store_could_not_be_read");
                        let before = res.violations.len();
                        if path.ends_with("leases.json") {
                            check_listing(&mut res, &rep.body, &rows, *si);
                        }
                        for v in res.violations[before..].iter_mut() {
                            if v.kind == "C20.listing_differs_from_store" {
                                v.kind = "C20.listing_differs_from_store.after_disk_read_error".into();
                            }
                        }
                    } else if path.ends_with("leases.json") {
                        check_listing(&mut res, &rep.body, &rows, *si);
                    } else {
                        check_gauges(&mut res, &rep.body, &rows, wall, wall_after, *si);
                    }
                }
            }
        }

        // ---- ACL steps (C08, HTTP half)
        for (si, path, from, to) in &acl_steps {
            let parse = |x: &str| -> (Addr, crate::acl_model::ClientAddr) {
                if let Some(u) = x.strip_prefix("unix:") {
                    let name = if u == "unnamed" {
                        UnixName::Unnamed
                    } else if let Some(a) = u.strip_prefix('@') {
                        UnixName::Abstract(a.as_bytes().to_vec())
                    } else {
                        UnixName::Path(u.as_bytes().to_vec())
                    };
                    (Addr::Unix(name), crate::acl_model::ClientAddr::Unix)
                } else {
                    let sa: SocketAddr = x.parse().unwrap();
                    (Addr::Inet(sa), crate::acl_model::ClientAddr::Ip(sa.ip()))
                }
            };
            let (from_a, client) = parse(from);
            let (to_a, _) = parse(to);
            let perm = match path.as_str() {
                "/" => "http",
                "/metrics" => "http-metrics",
                _ => "http-leases",
            };
            let rules: Vec<AclM> = match &conf.acls {
                Some(a) => a.clone(),
                None => vec![
                    AclM { subnets: Some(conf.addresses.iter().map(|(a, l)| format!("{}/{}", a, l)).collect()), unix: None, access: vec!["dns-recursion".into(), "http-ro".into()] },
                    AclM { subnets: Some(vec!["127.0.0.0/8".into(), "::1/128".into()]), unix: None, access: vec!["dns-recursion".into(), "http-ro".into()] },
                    AclM { subnets: None, unix: Some(true), access: vec!["http-ro".into()] },
                ],
            };
            if conf.acls.is_none() && perm == "http" {
                /* the manual and the built-in default disagree on whether http-ro includes
                 * the root page; documented-silent, not judged */
                continue;
            }
            let Some(want) = crate::acl_model::granted_opt(&rules, &client, perm) else {
                res.probe("C08.outcome_not_settled_by_manual");
                continue;
            };
            let reply = http_get(&kernel, from_a, to_a, path).await;
            for (loc, msg) in crate::common::take_panics() {
                res.violate("C08", &format!("C08.panic_serving_api@{}", loc), format!("{} from {}: {}", path, from, msg), *si);
            }
            res.probe(if want { "C08.http_request_that_must_be_granted" } else { "C08.http_request_that_must_be_refused" });
            if client == crate::acl_model::ClientAddr::Unix {
                res.probe("C08.http_over_unix_socket");
            } else if to.starts_with("[") == false && conf.api_listeners.iter().any(|l| l == "[::]:9968") {
                res.probe("C08.ipv4_client_on_dual_stack_listener");
            }
            match reply {
                Err(e) => res.violate("C08", "C08.no_http_response", format!("GET {} from {} to {}: {}", path, from, to, e), *si),
                Ok(rep) => {
                    nontrivial_events += 1;
                    let got = rep.status == 200;
                    if rep.status != 200 && rep.status != 403 {
                        res.violate("C08", "C08.unexpected_http_status", format!("GET {} from {}: status {}", path, from, rep.status), *si);
                    } else if got != want {
                        res.violate(
                            "C08",
                            &format!("C08.{}.{}", if got { "granted_but_must_be_refused" } else { "refused_but_must_be_granted" }, perm),
                            format!("GET {} from {} (to {}): status {}; first-match evaluation of the ACLs says {}; acls: {:?}", path, from, to, rep.status, if want { "grant" } else { "refuse" }, rules),
                            *si,
                        );
                    }
                }
            }
        }

        if crashed {
            /* crash recovery: the page cache survives a process kill */
            *res.faults.entry("process_kill".into()).or_insert(0) += 1;
            let names = vfs::with_disk(|d| d.call_names.clone());
            if let Some(last) = names.len().checked_sub(2).and_then(|i| names.get(i)) {
                res.probe(&format!("C18.crash_after_{}", last.replace(|c: char| c.is_ascii_digit(), "")));
            }
            server.abort();
            kernel.kill_process();
            let image = vfs::with_disk(|d| d.crash_image.clone());
            vfs::with_disk(|d| d.reboot(image));
            match boot(&ifaces, &plan.configs[cfg_idx].yaml()).await {
                Ok(s) => server = s,
                Err(e) => {
                    res.violate("C18", "C18.reopen_failed_after_kill", format!("after a kill before disk call {:?} the store can no longer be opened: {}", names.last(), e), group[0].0);
                    erbium_net::sim::install(None);
                    return finish(res, &kernel, t0, nontrivial_events);
                }
            }
            tokio::time::sleep(Duration::from_millis(1)).await;
            ids_used.clear();
            if let Ok((rows, _)) = vfs::read_rows() {
                /* every lease whose reply was produced before the kill is there */
                for s in &sent {
                    for r in replies.iter().filter(|r| r.msg.as_ref().map(|m| m.xid == s.msg.xid).unwrap_or(false)) {
                        let m = r.msg.as_ref().unwrap();
                        let found = rows.iter().any(|row| row.address == m.yiaddr.to_string() && row.clientid.as_deref() == Some(&s.identity[..]) && row.start == now);
                        if !found {
                            res.violate("C18", "C18.acknowledged_lease_lost", format!("reply for {} to {} was on the wire before the kill, store after recovery: {:?}", m.yiaddr, hex(&s.identity), rows), s.step);
                        }
                    }
                }
                /* and no partially written lease */
                for row in &rows {
                    if before_rows.get(&row.address) == Some(row) {
                        continue;
                    }
                    let explained = sent.iter().any(|s| {
                        row.clientid.as_deref() == Some(&s.identity[..]) && row.start == now && (300..=86400).contains(&(row.expiry - row.start)) && row.address.parse::<Ipv4Addr>().is_ok()
                    });
                    if !explained {
                        res.violate("C18", "C18.unexplained_row_after_kill", format!("row {:?} is neither an earlier lease nor the complete record of a request in flight", row), group[0].0);
                    }
                }
                res.probe("C18.recovered_after_kill");
            } else {
                res.violate("C18", "C18.store_unreadable_after_kill", "the recovered store cannot be read".into(), group[0].0);
            }
        }
        if res.harness_error.is_some() {
            break;
        }
    }
    if plan.shape.starts_with("drain") && res.harness_error.is_none() {
        /* the "conversely" clause of C02: everything the manual grants was leasable */
        let lan = &plan.lans[0];
        let mut d: BTreeSet<u32> = plan.configs[0].allowed(&[0x02, 0, 0, 0, 9, 9], lan).unwrap_or_default();
        for (a, _, _, _) in &plan.prefill {
            d.remove(&u32::from(*a));
        }
        res.probe("C02.drain_run");
        if refused_tail >= 2 {
            res.probe("C02.pool_drained");
            let missing: Vec<Ipv4Addr> = d.difference(&handed).map(|a| Ipv4Addr::from(*a)).collect();
            if !missing.is_empty() {
                let last_host = Ipv4Addr::from(lan.broadcast() - 1);
                let first_host = Ipv4Addr::from(lan.network() + 1);
                let kind = if missing.contains(&last_host) {
                    "C02.last_host_address_never_leased"
                } else if missing.contains(&first_host) {
                    "C02.first_host_address_never_leased"
                } else {
                    "C02.documented_address_never_leased"
                };
                res.violate("C02", kind, format!("pool drained (the last {} DISCOVERs were refused) but {:?} of the {} documented addresses were never leased; config:\n{}", refused_tail, &missing[..missing.len().min(6)], d.len(), plan.configs[0].yaml()), plan.steps.len());
            }
            if d.contains(&(lan.broadcast() - 1)) && handed.contains(&(lan.broadcast() - 1)) {
                res.probe("C02.last_host_address_issued");
            }
        } else {
            res.observations.push(format!("drain did not exhaust the pool ({} of {} leased)", handed.len(), d.len()));
        }
    }
    if let Ok((rows, _)) = vfs::read_rows() {
        if rows.len() <= 64 {
            for r in rows {
                res.digest.push(format!("row {} client={} start={} expiry={}", r.address, hex(r.clientid.as_deref().unwrap_or(&[])), r.start, r.expiry));
            }
        }
    }
    res.steps = plan.steps.len();
    server.abort();
    erbium_net::sim::install(None);
    finish(res, &kernel, t0, nontrivial_events)
}

fn finish(mut res: RunResult, kernel: &Arc<Kernel>, t0: tokio::time::Instant, nontrivial_events: u64) -> RunResult {
    if crate::interpose::wall_now_secs() >= 2_147_483_648 {
        res.probe("clock.history_reaches_2038");
    }
    kernel.with(|k| {
        res.events = k.log.n;
        res.event_hash = format!("{:016x}", k.log.hash ^ vfs::with_disk(|d| d.hash));
        for (n, v) in &k.stats {
            if n.starts_with("fault.") {
                *res.faults.entry(n.clone()).or_insert(0) += v;
            } else {
                *res.probes.entry(n.clone()).or_insert(0) += v;
            }
        }
        res.trace = k.log.trace.take();
    });
    res.disk_calls = vfs::with_disk(|d| d.total_calls);
    res.sim_ms = tokio::time::Instant::now().saturating_duration_since(t0).as_millis() as u64;
    res.nontrivial = nontrivial_events > 0;
    if let Some(p) = vfs::with_disk(|d| d.harness_panic.take()) {
        res.harness_error = Some(p);
    }
    res
}

fn check_listing(res: &mut RunResult, body: &[u8], rows: &[Row], step: usize) {
    res.probe("C20.listing_fetched");
    if rows.is_empty() {
        res.probe("C20.listing_of_empty_store");
    }
    let v: serde_json::Value = match serde_json::from_slice(body) {
        Ok(v) => v,
        Err(e) => {
            res.violate("C20", "C20.listing_is_not_json", format!("{} -- body: {}", e, String::from_utf8_lossy(body)), step);
            return;
        }
    };
    let Some(list) = v.get("leases").and_then(|l| l.as_array()) else {
        res.violate("C20", "C20.listing_has_no_lease_array", String::from_utf8_lossy(body).to_string(), step);
        return;
    };
    let mut got: Vec<(String, String, i64, i64)> = list
        .iter()
        .map(|e| {
            (
                e.get("ip").and_then(|x| x.as_str()).unwrap_or("?").to_string(),
                e.get("client_id").and_then(|x| x.as_str()).unwrap_or("?").to_string(),
                e.get("start").and_then(|x| x.as_i64()).unwrap_or(-1),
                e.get("expire").and_then(|x| x.as_i64()).unwrap_or(-1),
            )
        })
        .collect();
    let mut want: Vec<(String, String, i64, i64)> =
        rows.iter().map(|r| (r.address.clone(), client_id_hex(r.clientid.as_deref().unwrap_or(&[])), r.start, r.expiry)).collect();
    got.sort();
    want.sort();
    if got != want {
        res.violate("C20", "C20.listing_differs_from_store", format!("listing {:?} store {:?}", got, want), step);
    }
}

/// The gauges are computed while the request is served, i.e. at some second in
/// [now, now_hi]; when the request began and ended within one second the expected
/// values are exact (active: expiry > now, expired: expiry <= now).
fn check_gauges(res: &mut RunResult, body: &[u8], rows: &[Row], now: i64, now_hi: i64, step: usize) {
    res.probe("C20.metrics_fetched");
    let text = String::from_utf8_lossy(body);
    let gauge = |name: &str| -> Option<f64> {
        text.lines().find(|l| l.starts_with(name) && l[name.len()..].starts_with(' ')).and_then(|l| l[name.len()..].trim().parse().ok())
    };
    let now_hi = now_hi.max(now);
    let active_lo = rows.iter().filter(|r| r.expiry > now_hi).count() as f64;
    let active_hi = rows.iter().filter(|r| r.expiry > now).count() as f64;
    let expired_lo = rows.iter().filter(|r| r.expiry <= now).count() as f64;
    let expired_hi = rows.iter().filter(|r| r.expiry <= now_hi).count() as f64;
    if now == now_hi && rows.iter().any(|r| r.expiry == now) {
        res.probe("C20.gauges_judged_exactly_at_an_expiry_second");
    }
    if rows.is_empty() {
        res.probe("C20.gauges_of_empty_store");
    }
    if !rows.is_empty() && rows.iter().all(|r| r.expiry < now) {
        res.probe("C20.all_leases_expired");
    }
    for (name, lo, hi) in [("dhcp_active_leases", active_lo, active_hi), ("dhcp_expired_leases", expired_lo, expired_hi)] {
        match gauge(name) {
            None => res.violate("C20", &format!("C20.gauge_missing.{}", name), format!("{} is not in /metrics ({} rows in store)", name, rows.len()), step),
            Some(v) if v >= lo && v <= hi => (),
            Some(v) => {
                let kind = if rows.is_empty() { format!("C20.gauge_wrong_on_empty_store.{}", name) } else { format!("C20.gauge_wrong.{}", name) };
                res.violate("C20", &kind, format!("{} = {} but the store has {}..{} such leases at wall clock {} (rows: {:?})", name, v, lo, hi, now, rows.iter().map(|r| r.expiry).collect::<Vec<_>>()), step)
            }
        }
    }
}

fn run_once(plan: &PlanA, opts: &ExecOpts) -> RunResult {
    let rt = tokio::runtime::Builder::new_current_thread().enable_time().start_paused(true).build().unwrap();
    let r = rt.block_on(run_async(plan, opts));
    drop(rt);
    r
}

/// C12, first sentence, on every message a simulated client sends: if erbium's decoder accepts
/// the octets as m, then encoding m and decoding the result gives m again.
fn own_codec_roundtrip(res: &mut RunResult, bytes: &[u8], step: usize) {
    use erbium::dhcp::dhcppkt::parse;
    let before = crate::common::PANICS.lock().map(|p| p.len()).unwrap_or(0);
    let r = std::panic::catch_unwind(|| match parse(bytes) {
        Err(_) => None,
        Ok(m) => {
            let again = m.serialise();
            Some(match parse(&again) {
                Ok(m2) if m2 == m => Ok(()),
                Ok(_) => Err(format!("message {} is accepted, re-encoded as {}, and that decodes to a different message", hex(bytes), hex(&again))),
                Err(e) => Err(format!("message {} is accepted, re-encoded as {}, and that does not decode: {:?}", hex(bytes), hex(&again), e)),
            })
        }
    });
    match r {
        Ok(None) => res.probe("C12.client_message_refused_by_decoder"),
        Ok(Some(Ok(()))) => res.probe("C12.client_message_survives_encode_decode"),
        Ok(Some(Err(e))) => res.violate("C12", "C12.accepted_message_changed_by_encode_decode", e, step),
        Err(_) => {
            /* the panic belongs to this oracle's call into the codec, not to the running server */
            let mine: Vec<(String, String)> = crate::common::PANICS.lock().map(|mut p| { let at = before.min(p.len()); p.split_off(at) }).unwrap_or_default();
            let (loc, msg) = mine.first().cloned().unwrap_or_default();
            res.violate("C12", &format!("C12.codec_panic_on_accepted_message@{}", loc), format!("decoding {} and encoding the result panics: {}", hex(bytes), msg), step);
        }
    }
}

pub fn run_plan(plan: &PlanA, opts: &ExecOpts) -> RunResult {
    if let (Some(Image::V0 { rows, .. }), None, None) = (&plan.image, plan.crash_at_total, plan.pair_split) {
        /* upgrade equivalence: the same history on the same rows stored in the current
         * schema must produce the same replies and the same store */
        let mut a = run_once(plan, opts);
        let mut reference = plan.clone();
        reference.image = Some(Image::Current { rows: rows.clone() });
        let b = run_once(&reference, opts);
        a.probe("C18.upgraded_image_compared_with_current_schema");
        if a.harness_error.is_none() && b.harness_error.is_none() && a.digest != b.digest {
            let diff = a.digest.iter().zip(b.digest.iter()).find(|(x, y)| x != y).map(|(x, y)| format!("upgraded: [{}]  current schema: [{}]", x, y)).unwrap_or_else(|| format!("{} vs {} entries", a.digest.len(), b.digest.len()));
            a.violate("C18", "C18.upgraded_store_behaves_differently", format!("after opening the old-schema image the server does not behave as on the same rows in the current schema: {}", diff), 0);
        }
        a.events += b.events;
        a.event_hash = format!("{}+{}", a.event_hash, b.event_hash);
        return a;
    }
    let Some(split) = plan.pair_split else {
        return run_once(plan, opts);
    };
    /* restart equivalence: the same history with and without a clean restart
     * between two instants must produce the same replies and the same store */
    let mut a = run_once(plan, opts);
    let mut with = plan.clone();
    let at = (plan.steps[split - 1].at_ms + plan.steps[split].at_ms) / 2;
    with.steps.insert(split, Step { at_ms: at, kind: StepKind::Restart { cfg: 0 } });
    let b = run_once(&with, opts);
    a.probe("C18.restart_pair_compared");
    if a.harness_error.is_none() && b.harness_error.is_none() && a.digest != b.digest {
        let diff = a.digest.iter().zip(b.digest.iter()).find(|(x, y)| x != y).map(|(x, y)| format!("uninterrupted: [{}]  restarted: [{}]", x, y)).unwrap_or_else(|| format!("{} vs {} entries", a.digest.len(), b.digest.len()));
        a.violate("C18", "C18.restart_changes_behaviour", format!("a clean restart before step {} changes what clients see: {}", split, diff), split);
    }
    for v in b.violations {
        if !a.violations.iter().any(|x| x.kind == v.kind) {
            a.violations.push(v);
        }
    }
    a.events += b.events;
    a.event_hash = format!("{}+{}", a.event_hash, b.event_hash);
    a
}
