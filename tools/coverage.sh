#!/bin/bash
# Development aid (not a registered check): which lines of erbium does the simulation
# execute?  Builds esim with source-based coverage on the nightly toolchain into a scratch
# target directory, runs a scaled-down quick tier of the given checks, and prints the
# per-file summary for /repo/crates plus the uncovered lines of the files named in $SHOW.
# usage: tools/coverage.sh [PROP...]   (default: all claimed properties)
set -e
T=/var/tmp/esim-cov-target; O=/var/tmp/esim-cov
BIN=$HOME/.rustup/toolchains/nightly-x86_64-unknown-linux-gnu/lib/rustlib/x86_64-unknown-linux-gnu/bin
rm -rf $O; mkdir -p $O
cd /verif/sim
RUSTFLAGS='--cfg erbium_verif --cfg getrandom_backend="custom" --cfg esim_cov -C instrument-coverage --check-cfg=cfg(esim_cov)' \
  LLVM_PROFILE_FILE=$O/build-%m.profraw CARGO_NET_OFFLINE=true cargo +nightly build --offline --target-dir $T 2>&1 | tail -3
cd /verif
for p in ${@:-C01 C02 C09 C10 C12 C13 C18 C20 C05 C08 C03 C04 C06 C07 C14 C15 C16}; do
  LLVM_PROFILE_FILE="$O/esim-%8m.profraw" ESIM_SCALE=${ESIM_SCALE:-0.1} $T/debug/esim check $p quick --dir $O 2>&1 | tail -1
done
rm -f $O/build-*.profraw; $BIN/llvm-profdata merge -sparse $O/*.profraw -o $O/esim.profdata
$BIN/llvm-cov report $T/debug/esim -instr-profile=$O/esim.profdata --ignore-filename-regex='(\.cargo|rustc|/verif/)' 2>/dev/null | grep -E "^repo|^Filename|^TOTAL" | awk '{printf "%-50s regions %6s missed %6s %8s  lines-missed %6s %8s\n", $1, $2, $3, $4, $9, $10}'
for f in $SHOW; do
  $BIN/llvm-cov show $T/debug/esim -instr-profile=$O/esim.profdata $f --show-line-counts-or-regions 2>/dev/null | grep -E "^\s+[0-9]+\|\s+0\|" | head -${SHOWN:-200}
done
