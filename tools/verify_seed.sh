#!/bin/bash
# Development aid: confirm a seeded change in its scratch worktree:
#  - the 99 existing tests pass with the change
#  - the demonstration fails with it and passes without it
# usage: tools/verify_seed.sh <worktree> <file-to-append-demo-to> <test-filter>
wt=$1; target=$2; filter=$3
cd $wt || exit 2
export CARGO_NET_OFFLINE=true
git checkout -q -- . && git apply OUT/patch.diff || exit 2
echo "--- suite with change:"; cargo test --workspace --offline 2>&1 | grep -E "^test result: .* [1-9][0-9]* (passed|failed)|FAILED" | head -5
cat OUT/demo.rs >> $target
echo "--- demo WITH change:"; cargo test -p erbium-core --offline $filter 2>&1 | grep -E "^test .* (ok|FAILED)$|^test result" | head -12
git apply -R OUT/patch.diff
echo "--- demo WITHOUT change:"; cargo test -p erbium-core --offline $filter 2>&1 | grep -E "^test .* (ok|FAILED)$|^test result" | head -12
git checkout -q -- . && git apply OUT/patch.diff
