#!/bin/bash
# Development aid: apply /verif/seeded/<id>/patch.diff to /repo, run the given
# property's check (tier from $TIER, default quick), undo the patch.
# usage: tools/run_seeded.sh <id> <PROP> [more PROPs...]
cd /verif
id=$1; shift
git -C /repo apply /verif/seeded/$id/patch.diff || { echo "$id: patch does not apply"; exit 2; }
for prop in "$@"; do
  out=$(./check $prop ${TIER:-quick} 2>&1); rc=$?
  kinds=$(echo "$out" | grep '^violation kind=' | sed 's/ detail=.*//' | tr '\n' ' ')
  echo "$id vs $prop ${TIER:-quick}: exit=$rc $kinds"
  echo "$out" | grep '^violation kind=' | cut -c1-400
done
git -C /repo checkout -- .
