#!/bin/bash
# Development aid: apply each patch in tools/mutants to /repo, run the quick
# check of the property named in the file name (x.<PROP>.patch), expect exit 1,
# and undo the patch straight afterwards.
cd /verif
for p in ${@:-tools/mutants/*.patch}; do
  prop=$(basename $p .patch); prop=${prop##*.}
  git -C /repo apply /verif/$p || { echo "$p: does not apply"; continue; }
  out=$(ESIM_SCALE=${ESIM_SCALE:-1} ./check $prop quick 2>&1); rc=$?
  git -C /repo checkout -- .
  kinds=$(echo "$out" | grep '^violation kind=' | sed 's/ detail=.*//' | tr '\n' ' ')
  echo "$(basename $p): exit=$rc $kinds"
done
rm -f /verif/replays/*.json 2>/dev/null
