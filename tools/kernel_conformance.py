#!/usr/bin/env python3
"""Development aid (not a registered check: real sockets do not replay).
Confirms on this sandbox's loopback the Linux socket rules the simulated kernel
in sim/src/kernel.rs implements."""
import socket, struct, errno, sys
IP_PKTINFO=8; IPV6_RECVPKTINFO=49; IPV6_PKTINFO=50
res=[]
def check(name, ok, extra=""):
    res.append((name, ok)); print(("ok   " if ok else "FAIL ")+name+(" -- "+extra if extra else ""))

# 1. IP_PKTINFO is attached only if the option was set on that socket
r=socket.socket(socket.AF_INET, socket.SOCK_DGRAM); r.bind(("127.0.0.1",0)); port=r.getsockname()[1]
s=socket.socket(socket.AF_INET, socket.SOCK_DGRAM)
s.sendto(b"x",("127.0.0.1",port)); d,anc,fl,ad=r.recvmsg(100,1024)
check("no IP_PKTINFO cmsg unless requested", not any(l==socket.IPPROTO_IP and t==IP_PKTINFO for l,t,_ in anc))
r.setsockopt(socket.IPPROTO_IP, IP_PKTINFO, 1)
s.sendto(b"x",("127.0.0.1",port)); d,anc,fl,ad=r.recvmsg(100,1024)
pk=[c for l,t,c in anc if l==socket.IPPROTO_IP and t==IP_PKTINFO]
check("IP_PKTINFO cmsg when requested", len(pk)==1 and len(pk[0])>=12)
if pk:
    ifi,spec,addr=struct.unpack("i4s4s",pk[0][:12])
    check("ipi_addr is the header destination in network byte order", addr==socket.inet_aton("127.0.0.1"))

# 2. ipi_spec_dst on send must be a local address, read in network byte order
def send_with_spec(spec):
    pi=struct.pack("i4s4s",0,socket.inet_aton(spec),b"\0\0\0\0")
    try:
        s.sendmsg([b"y"],[(socket.IPPROTO_IP,IP_PKTINFO,pi)],0,("127.0.0.1",port)); return 0
    except OSError as e: return e.errno
check("local ipi_spec_dst accepted", send_with_spec("127.0.0.1")==0)
e=send_with_spec("1.0.0.127")
check("byte-reversed (non-local) ipi_spec_dst refused", e in (errno.EINVAL, errno.ENETUNREACH), "errno %d"%e)

# 3. IPv4 on an AF_INET6 wildcard socket: v4-mapped source and an in6_pktinfo
try:
    r6=socket.socket(socket.AF_INET6, socket.SOCK_DGRAM); r6.setsockopt(socket.IPPROTO_IPV6, socket.IPV6_V6ONLY, 0)
    r6.bind(("::",0)); p6=r6.getsockname()[1]; r6.setsockopt(socket.IPPROTO_IPV6, IPV6_RECVPKTINFO, 1)
    s.sendto(b"z",("127.0.0.1",p6)); d,anc,fl,ad=r6.recvmsg(100,1024)
    check("IPv4 datagram on dual-stack socket has a v4-mapped source", ad[0].startswith("::ffff:"), ad[0])
    pk6=[c for l,t,c in anc if l==socket.IPPROTO_IPV6 and t==IPV6_PKTINFO]
    check("... and an in6_pktinfo with the v4-mapped destination", len(pk6)==1 and pk6[0][:16]==socket.inet_pton(socket.AF_INET6,"::ffff:127.0.0.1"))
    # reply with IPV6_PKTINFO carrying the mapped source
    pi6=socket.inet_pton(socket.AF_INET6,"::ffff:127.0.0.1")+struct.pack("I",0)
    try:
        r6.sendmsg([b"w"],[(socket.IPPROTO_IPV6,IPV6_PKTINFO,pi6)],0,ad); ok=True
    except OSError as e: ok=False
    check("send to v4-mapped peer with v4-mapped IPV6_PKTINFO source works", ok)
    pi6=socket.inet_pton(socket.AF_INET6,"::ffff:1.2.3.4")+struct.pack("I",0)
    try:
        r6.sendmsg([b"w"],[(socket.IPPROTO_IPV6,IPV6_PKTINFO,pi6)],0,ad); e=0
    except OSError as ex: e=ex.errno
    check("... and a non-local mapped source is refused", e in (errno.EINVAL, errno.ENETUNREACH), "errno %d"%e)
    # 4. bind conflict between [::]:p (dual stack) and 0.0.0.0:p
    b4=socket.socket(socket.AF_INET, socket.SOCK_DGRAM)
    try:
        b4.bind(("0.0.0.0",p6)); e=0
    except OSError as ex: e=ex.errno
    check("0.0.0.0:p conflicts with a dual-stack [::]:p", e==errno.EADDRINUSE, "errno %d"%e)
except OSError as ex:
    print("IPv6 not usable here:", ex)

# 5. ICMP port unreachable surfaces as ECONNREFUSED on a connected UDP socket
c=socket.socket(socket.AF_INET, socket.SOCK_DGRAM); c.connect(("127.0.0.1",1)); c.send(b"q")
import time; time.sleep(0.05)
try:
    c.settimeout(0.2); c.recv(10); e=0
except socket.timeout: e=-1
except OSError as ex: e=ex.errno
check("datagram to a closed port gives ECONNREFUSED on a connected socket", e==errno.ECONNREFUSED, "errno %d"%e)
sys.exit(0 if all(ok for _,ok in res) else 1)
