#!/bin/bash
# like verify_seed.sh, for demonstrations that are integration tests:
# usage: tools/verify_seed_it.sh <worktree> <tests/name.rs> <test-name>
wt=$1; target=$2; name=$3
cd $wt || exit 2
export CARGO_NET_OFFLINE=true
git checkout -q -- . && git apply OUT/patch.diff || exit 2
echo "--- suite with change:"; cargo test --workspace --offline 2>&1 | grep -E "^test result: .* [1-9][0-9]* (passed|failed)|FAILED" | head -5
mkdir -p $(dirname $target); cp OUT/demo.rs $target
echo "--- demo WITH change:"; cargo test -p erbium-core --offline --test $name 2>&1 | grep -E "^test .* (ok|FAILED)$|^test result" | head -12
git apply -R OUT/patch.diff
echo "--- demo WITHOUT change:"; cargo test -p erbium-core --offline --test $name 2>&1 | grep -E "^test .* (ok|FAILED)$|^test result" | head -12
rm -f $target; git checkout -q -- . && git apply OUT/patch.diff
