#!/bin/bash
# run every registered quick check once (rewrites all evidence files)
cd /verif
for p in $(python3 -c "import json;print(' '.join(c['property_id'] for c in json.load(open('MANIFEST.json'))['checks']))"); do
  ./check $p quick | tail -1; echo "  exit=${PIPESTATUS[0]}"
done
